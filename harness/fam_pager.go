package main

import (
	"fmt"
	nurl "net/url"
	"strconv"
	"strings"

	"golang.org/x/net/html"
)

// The "pager" family (C16, C17): pagers enumerated by spec/Pager.tla become pages
// with an article body and a pager; both finders are run through Apply. The
// projection decodes NextPage / PrevPage: for conventional pagers into the page
// index they point to, for mixed pagers into lexical facts (absolute? http(s)? same
// host? the normalised target of an anchor of the document?).

func init() { register("C16,C17", runPager) }

const pagerHost = "example.com"

func convURL(fam string, i int) string {
	switch fam {
	case "path":
		return fmt.Sprintf("https://%s/zqs/view/%d", pagerHost, i)
	case "pathmid":
		return fmt.Sprintf("https://%s/zqs/%d/photos", pagerHost, i)
	case "pathmidext":
		return fmt.Sprintf("https://%s/zqs/%d/photos.html", pagerHost, i)
	case "file":
		return fmt.Sprintf("https://%s/zqs/view-%d.html", pagerHost, i)
	case "datedfile":
		// a story filed under /<year>/<month>/ with a file-name suffix pager: not a calendar page
		return fmt.Sprintf("https://%s/zqs/2014/07/zqname_Part%d.html", pagerHost, i)
	case "pathslash":
		return fmt.Sprintf("https://%s/zqs/view/%d/", pagerHost, i)
	case "queryhtml":
		// a query pager on a page whose path ends in .html
		return fmt.Sprintf("https://%s/zqs/view.html?pg=%d", pagerHost, i)
	case "queryid":
		// a second, constant numeric parameter that sorts before the page parameter
		return fmt.Sprintf("https://%s/zqs/view?id=77&pg=%d", pagerHost, i)
	default:
		return fmt.Sprintf("https://%s/zqs/view?pg=%d", pagerHost, i)
	}
}

func convHref(fam string, i int, r int) string {
	// the same target written relative or absolute
	abs := convURL(fam, i)
	switch r % 3 {
	case 0:
		return abs
	case 1:
		return strings.TrimPrefix(abs, "https://"+pagerHost)
	default:
		switch fam {
		case "pathmid", "pathmidext":
			return abs
		case "pathslash":
			return fmt.Sprintf("../%d/", i) // relative to /zqs/view/<k>/
		case "datedfile":
			return fmt.Sprintf("zqname_Part%d.html", i)
		case "queryid":
			return fmt.Sprintf("?id=77&pg=%d", i)
		case "path":
			return fmt.Sprintf("%d", i) // relative to /zqs/view/<k>
		case "file":
			return fmt.Sprintf("view-%d.html", i)
		default:
			return fmt.Sprintf("?pg=%d", i)
		}
	}
}

func wrapItems(items []string, wrap, sep string) string {
	s := map[string]string{"space": " ", "bar": " | ", "none": "", "comma": ", ", "tightbar": "|"}[sep]
	switch wrap {
	case "ulli":
		var sb strings.Builder
		sb.WriteString("<ul>")
		for _, it := range items {
			sb.WriteString("<li>" + it + "</li>" + s)
		}
		sb.WriteString("</ul>")
		return sb.String()
	case "indent":
		// pretty-printed markup: every item in its own li, white space text nodes everywhere,
		// the item itself wrapped once more
		var sb strings.Builder
		sb.WriteString("<ul>\n")
		for _, it := range items {
			if strings.HasPrefix(it, "<a") {
				sb.WriteString("  <li>\n    " + it + "\n  </li>\n")
			} else {
				sb.WriteString("  <li class=\"zqcur\">\n    <span>" + it + "</span>\n  </li>\n")
			}
		}
		sb.WriteString("</ul>")
		return sb.String()
	case "span":
		var sb strings.Builder
		sb.WriteString("<div>")
		for i, it := range items {
			if i > 0 {
				sb.WriteString(s)
			}
			sb.WriteString("<span>" + it + "</span>")
		}
		sb.WriteString("</div>")
		return sb.String()
	case "td":
		var sb strings.Builder
		sb.WriteString("<table><tr>")
		for _, it := range items {
			sb.WriteString("<td>" + it + "</td>" + s)
		}
		sb.WriteString("</tr></table>")
		return sb.String()
	default:
		return "<div>" + strings.Join(items, s) + "</div>"
	}
}

func decorate(deco string, k int) string {
	switch deco {
	case "span":
		return fmt.Sprintf("<span>%d</span>", k)
	case "strong":
		return fmt.Sprintf("<strong>%d</strong>", k)
	case "b":
		return fmt.Sprintf("<b>%d</b>", k)
	case "em":
		return fmt.Sprintf("<em>%d</em>", k)
	case "bracket":
		return fmt.Sprintf("[%d]", k)
	default:
		return fmt.Sprintf("%d", k)
	}
}

func pagerPage(g *docGen, pager string) string {
	return "<!DOCTYPE html><html><head><title>" + g.words(4) + "</title></head><body><div>" +
		g.para(60) + g.para(55) + g.para(50) + "</div>" + pager + "</body></html>"
}

// normalise: resolve against the page URL, drop the fragment, trim a trailing slash.
func normaliseTarget(href string, page *nurl.URL) (string, bool) {
	u, err := nurl.Parse(href)
	if err != nil {
		return "", false
	}
	r := page.ResolveReference(u)
	r.Fragment = ""
	r.RawFragment = ""
	r.Path = strings.TrimSuffix(r.Path, "/")
	r.RawPath = ""
	return r.String(), true
}

func collectAnchors(n *html.Node, out *[]string) {
	if n.Type == html.ElementNode && n.Data == "a" {
		if h, ok := attr(n, "href"); ok {
			*out = append(*out, h)
		}
	}
	for c := n.FirstChild; c != nil; c = c.NextSibling {
		collectAnchors(c, out)
	}
}

// linkFacts: lexical facts about a returned URL string.
func linkFacts(s string, page *nurl.URL, targets map[string]bool, trimTargets map[string]bool) map[string]interface{} {
	f := map[string]interface{}{"empty": s == "", "absolute": false, "http": false, "samehost": false, "istarget": false,
		"trimtarget": trimTargets[s] || trimTargets[strings.TrimSuffix(s, "/")]}
	if s == "" {
		return f
	}
	low := strings.ToLower(s)
	scheme := ""
	rest := ""
	if i := strings.Index(low, "://"); i > 0 {
		scheme, rest = low[:i], s[i+3:]
	}
	host := rest
	if i := strings.IndexAny(host, "/?#"); i >= 0 {
		host = host[:i]
	}
	if i := strings.LastIndex(host, "@"); i >= 0 {
		host = host[i+1:]
	}
	f["absolute"] = scheme != "" && host != ""
	f["http"] = scheme == "http" || scheme == "https"
	f["samehost"] = strings.EqualFold(host, page.Host)
	t := strings.TrimSuffix(s, "/")
	f["istarget"] = targets[s] || targets[t]
	return f
}

func runPager(c Case, e *env) []Event {
	g := newDocGen(e.seed, c.ID)
	r := g.rng
	kind := c.str("kind", "conv")
	algo := c.str("algo", "pagenumber")
	var pager, pageURL string
	var call Event
	urlIndex := map[string]int{}
	if kind == "conv" {
		n, k := c.num("n", 3), c.num("k", 1)
		fam, sep, wrap, deco, labels := c.str("fam", "query"), c.str("sep", "space"), c.str("wrap", "div"), c.str("deco", "plain"), c.str("labels", "none")
		style := r.Intn(3)
		if fam == "path" && style == 2 {
			style = 0 // a bare number as relative path would resolve against /zqs/view/, keep it unambiguous
		}
		var items []string
		numbered := algo == "pagenumber" || r.Intn(2) == 0
		if labels != "none" && k > 1 && labels != "onlynext" {
			lab := map[string]string{"nextprev": "Prev", "nextprevious": "Previous", "raquo": "« Prev"}[labels]
			items = append(items, fmt.Sprintf(`<a href="%s">%s</a>`, strings.ReplaceAll(convHref(fam, k-1, style), "&", "&amp;"), lab))
		}
		if numbered {
			for i := 1; i <= n; i++ {
				if i == k {
					items = append(items, decorate(deco, k))
				} else {
					items = append(items, fmt.Sprintf(`<a href="%s">%d</a>`, convHref(fam, i, style), i))
				}
			}
		}
		if labels != "none" && k < n {
			lab := map[string]string{"nextprev": "Next", "nextprevious": "Next", "raquo": "Next »", "onlynext": "Next"}[labels]
			items = append(items, fmt.Sprintf(`<a href="%s">%s</a>`, strings.ReplaceAll(convHref(fam, k+1, style), "&", "&amp;"), lab))
		}
		pager = wrapItems(items, wrap, sep)
		if (wrap == "div" || wrap == "") && r.Intn(3) == 0 {
			// a word in front of the numbers, in the same text node as the first of them when that one is plain text
			pager = strings.Replace(pager, "<div>", "<div>"+pickS(r, "Pages: ", "Page ", "Seiten: "), 1)
		}
		pageURL = convURL(fam, k)
		for i := 1; i <= n; i++ {
			urlIndex[convURL(fam, i)] = i
			urlIndex[strings.TrimSuffix(convURL(fam, i), "/")] = i // the finders trim a trailing slash
		}
		call = Event{"ev": "Call", "run": c.ID, "prop": e.prop, "c": map[string]interface{}{"kind": "conv", "n": n, "k": k, "fam": fam,
			"sep": sep, "wrap": wrap, "deco": deco, "algo": algo, "labels": labels, "numbered": numbered,
			"hasprevlink": labels != "none" && labels != "onlynext" && k > 1, "hasnextlink": labels != "none" && k < n}}
		count("conv_" + algo)
	} else {
		// mixed pager: arbitrary anchors around an optional plain current-page number
		page := c.str("page", "plain")
		switch page {
		case "slash":
			pageURL = "https://" + pagerHost + "/zqs/item/"
		case "query":
			pageURL = "https://" + pagerHost + "/zqs/view?pg=2&x=1"
		default:
			pageURL = "https://" + pagerHost + "/zqs/view/2"
		}
		cur := c.num("cur", 0)
		var items []string
		num := 1
		offVariant := r.Intn(5)
		for i, x := range c.list("anchors") {
			m, _ := x.(map[string]interface{})
			if cur == i+1 {
				items = append(items, fmt.Sprint(num))
				num++
			}
			label := fmt.Sprint(m["label"])
			text := ""
			switch label {
			case "next":
				text = pickS(r, "Next", "next page", "Next »", "weiter")
			case "prev":
				text = pickS(r, "Prev", "Previous", "« older")
			default:
				text = fmt.Sprint(num)
			}
			href := ""
			switch fmt.Sprint(m["href"]) {
			case "rel":
				href = pickS(r, fmt.Sprintf("item-%d.html", num), fmt.Sprintf("?pg=%d", num), fmt.Sprintf("%d", num), fmt.Sprintf("../view/%d", num))
			case "relnodigit":
				href = pickS(r, "more.html", "../list", "?sort=asc")
			case "abs":
				// sometimes with a fragment that scrolls to the article: the page it names is the same
				href = fmt.Sprintf("https://%s/zqs/view/%d", pagerHost, num) + pickS(r, "", "", "#content", "#top")
			case "absupper":
				href = fmt.Sprintf("https://%s/zqs/view/%d", strings.ToUpper(pagerHost), num)
			case "ftp":
				href = fmt.Sprintf("ftp://%s/zqs/view/%d", pagerHost, num)
			case "offsite":
				// one foreign site per page (a mirror, a partner): its links follow one pattern too
				href = []string{fmt.Sprintf("https://other.example.org/zqs/view/%d", num), fmt.Sprintf("https://other.example.org/zqs/view?pg=%d", num),
					fmt.Sprintf("http://partner.example.net/news?page=%d", num),
					// scheme-relative: starts with a slash but leads to another host
					fmt.Sprintf("//other.example.org/zqs/view/%d", num), fmt.Sprintf("//mirror.example.net/zqs/view/%d", num)}[offVariant]
			case "lookprefix":
				href = fmt.Sprintf("https://%s.evil.example.net/zqs/view/%d", pagerHost, num)
			case "looksuffix":
				href = fmt.Sprintf("https://evil%s/zqs/view/%d", pagerHost, num)
			case "js":
				href = pickS(r, fmt.Sprintf("javascript:go(%d)", num), fmt.Sprintf("javascript:go(%d)", num), fmt.Sprintf("JavaScript:void(%d)", num), "JAVASCRIPT:;")
			case "mailto":
				href = fmt.Sprintf("mailto:p%d@%s", num, pagerHost)
			case "empty":
				href = ""
			case "hash":
				href = fmt.Sprintf("#p%d", num)
			case "malformed":
				href = pickS(r, fmt.Sprintf("http://%%zz/%d", num), fmt.Sprintf("https://%s:x%d/", pagerHost, num), fmt.Sprintf("http://[::1/%d", num))
			case "schemerel":
				href = fmt.Sprintf("//%s/zqs/view/%d", pagerHost, num)
			}
			items = append(items, fmt.Sprintf(`<a href="%s">%s</a>`, href, text))
			if label == "num" {
				num++
			}
		}
		if cur == len(c.list("anchors"))+1 {
			items = append(items, fmt.Sprint(num))
		}
		pager = wrapItems(items, pickS(r, "div", "ulli", "span"), pickS(r, "space", "bar"))
		if r.Intn(2) == 0 {
			// the usual container of a pager: its class name is a positive hint for the prev/next scorer
			pager = `<div class="pagination">` + pager + `</div>`
		}
		call = Event{"ev": "Call", "run": c.ID, "prop": e.prop, "c": map[string]interface{}{"kind": "mixed", "algo": algo, "page": page, "n": 0, "k": 0}}
		count("mixed_" + algo)
	}
	page := pagerPage(g, pager)
	doc, err := html.Parse(strings.NewReader(page))
	if err != nil {
		return []Event{{"ev": "Skip", "run": c.ID, "why": "unparseable"}}
	}
	pu, _ := nurl.Parse(pageURL)
	var hrefs []string
	collectAnchors(doc, &hrefs)
	targets := map[string]bool{}
	// the same anchors resolved against the page URL WITHOUT its trailing slash (only used to
	// classify a known defect, never to accept a link)
	trimTargets := map[string]bool{}
	trimmed := *pu
	trimmed.Path = strings.TrimSuffix(trimmed.Path, "/")
	for _, h := range hrefs {
		if t, ok := normaliseTarget(h, pu); ok {
			targets[t] = true
		}
		if t, ok := normaliseTarget(h, &trimmed); ok {
			trimTargets[t] = true
		}
	}
	if showInputs {
		call["html"] = page
		call["pageurl"] = pageURL
	}
	opt := OptSpec{URL: pageURL}
	if algo == "pagenumber" {
		opt.Algo = 1
	}
	out := applyTree(doc, opt)
	if ev, bad := outcomeEvent(c.ID, out); bad {
		return []Event{call, ev}
	}
	// the scorer's verdict on every candidate link of a conventional pager (verif hook PNScore)
	scores := []map[string]interface{}{}
	if kind == "conv" && algo == "prevnext" {
		for _, h := range out.hooks {
			if h.Name != "PNScore" {
				continue
			}
			kv := hookKV(h)
			href, text := fmt.Sprint(kv["href"]), strings.TrimSpace(fmt.Sprint(kv["text"]))
			target, ok := urlIndex[href]
			if !ok {
				target = -1
			}
			lk := "other"
			if _, err := strconv.Atoi(text); err == nil {
				lk = "num"
			} else if strings.Contains(text, "Next") {
				lk = "next"
			} else if strings.Contains(text, "Prev") {
				lk = "prev"
			}
			sc, _ := kv["score"].(int)
			scores = append(scores, map[string]interface{}{"next": kv["next"] == true, "target": target, "kind": lk, "score": sc})
		}
	}
	obs := map[string]interface{}{"err": out.err != nil || out.res == nil, "next": 0, "prev": 0, "scores": scores,
		"nextfacts": linkFacts("", pu, targets, trimTargets), "prevfacts": linkFacts("", pu, targets, trimTargets), "nexturl": "", "prevurl": ""}
	if out.err == nil && out.res != nil {
		nx, pv := out.res.PaginationInfo.NextPage, out.res.PaginationInfo.PrevPage
		decode := func(s string) int {
			if s == "" {
				return 0
			}
			if i, ok := urlIndex[s]; ok {
				return i
			}
			return -1
		}
		obs["next"], obs["prev"] = decode(nx), decode(pv)
		obs["nextfacts"], obs["prevfacts"] = linkFacts(nx, pu, targets, trimTargets), linkFacts(pv, pu, targets, trimTargets)
		obs["nexturl"], obs["prevurl"] = nx, pv
		if nx != "" {
			count("next_found")
		}
		if pv != "" {
			count("prev_found")
		}
	}
	return []Event{call, {"ev": "Return", "run": c.ID, "obs": obs}}
}
