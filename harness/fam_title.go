package main

import (
	"fmt"
	"strings"
	"unicode"
	"unicode/utf8"

	"golang.org/x/net/html"
)

// The "title" family (C15). A case is a token sequence for <title> (spec/Title.tla:
// words of 2/6/40 letters, a hyphenated word, a word followed by a colon, the six
// spaced separators) plus the page's first h1 / h2 / markup title. The page carries
// an ordinary retained article.
//
//	run A   the page as described: which title does the distiller return?
//	run B   the same page plus one block (h1/h2/h3/p/div) whose text is exactly the
//	        title returned by run A, placed next to retained paragraphs
//	run C   (counter only) the same block with fresh words: is such a block retained?
//
// Everything logged about the source (normalised <title> text, first h1, markup
// title, blocks carrying the title) is read back from the parsed tree handed to
// Apply. Strings are decoded lexically into the atoms of Title.tla (word identity,
// space, colon, separator characters) - TLC cannot look inside strings; equality
// and containment of the raw strings are logged as booleans next to the strings.
// The handler projects; TitleTrace.tla judges.

func init() { register("C15", runTitle) }

// ttAtom is one atom of Title.tla: kind, number of characters, token index and part
// (word atoms only). In the trace an atom is the array [k, n, t, p].
type ttAtom struct {
	K string
	N int
	T int
	P int
}

func (a ttAtom) MarshalJSON() ([]byte, error) {
	return []byte(fmt.Sprintf("[%q,%d,%d,%d]", a.K, a.N, a.T, a.P)), nil
}

var ttSepChar = map[string]string{"bar": "|", "dash": "-", "slash": "/", "bslash": `\`, "gt": ">", "raquo": "»"}
var ttCharKind = map[rune]string{' ': "sp", ':': "colon", '|': "bar", '-': "dash", '/': "slash", '\\': "bslash", '>': "gt", '»': "raquo"}

type ttVocab map[string]ttAtom // lower-case word -> atom

// ttWord builds a unique letters-only word of the wanted length for (kind, t, p).
func ttWord(prefix string, t, p, length int) string {
	if length <= 2 {
		return string(rune('b'+t-1)) + "y"
	}
	w := prefix + string(rune('a'+t-1)) + string(rune('a'+p-1))
	for len(w) < length {
		w += "o"
	}
	return w[:length]
}

// ttWordCyr is ttWord in Cyrillic letters: the same number of characters, twice the bytes.
func ttWordCyr(t, p, length int) string {
	rs := []rune{'\u0442', rune(0x0430 + t - 1), rune(0x0430 + p - 1)}
	for len(rs) < length {
		rs = append(rs, '\u043e')
	}
	return string(rs[:length])
}

func ttLen(tok string) int {
	switch tok {
	case "w2", "c2":
		return 2
	case "w6", "c6":
		return 6
	case "w40":
		return 40
	}
	return 3
}

// ttTitleText renders a token sequence; every word goes into the vocabulary.
func ttTitleText(toks []string, g *docGen, vocab ttVocab) (string, bool) {
	word := func(t, p, n int) string {
		w := ttWord("t", t, p, n)
		if n >= 40 && g.rng.Intn(3) == 0 {
			// long words in a multi-byte script: lengths are counted in characters, not bytes
			w = ttWordCyr(t, p, n)
		} else if n > 2 && g.rng.Intn(4) == 0 {
			w = strings.ToUpper(w[:1]) + w[1:]
		}
		vocab[strings.ToLower(w)] = ttAtom{"w", n, t, p}
		return w
	}
	parts := make([]string, len(toks))
	for i, tok := range toks {
		t := i + 1
		switch {
		case tok == "hy":
			parts[i] = word(t, 1, 3) + "-" + word(t, 2, 3)
		case tok == "c2" || tok == "c6":
			parts[i] = word(t, 1, ttLen(tok)) + ":"
		case ttSepChar[tok] != "":
			parts[i] = ttSepChar[tok]
		default:
			parts[i] = word(t, 1, ttLen(tok))
		}
	}
	// now and then a title as people write them: an apostrophe inside a word and closing punctuation
	// ("What's really changing next year?"); the characters decode to unknown atoms on both sides
	deco := false
	if len(toks) >= 3 && g.rng.Intn(6) == 0 {
		deco = true
		// an apostrophe - or, as in a time of day or a ratio, a colon - inside a word: neither separates anything
		inner := pickS(g.rng, "'", "'", ":")
		for i, tok := range toks {
			if (tok == "w6" || tok == "w40") && len(parts[i]) > 3 {
				parts[i] = parts[i][:2] + inner + parts[i][2:]
				break
			}
		}
		if last := toks[len(toks)-1]; strings.HasPrefix(last, "w") {
			parts[len(parts)-1] += pickS(g.rng, "?", "!", ".", "?!")
		}
	}
	return strings.Join(parts, " "), deco
}

func ttRunWords(kind, prefix string, cnt, length int, vocab ttVocab) string {
	ws := make([]string, cnt)
	for i := range ws {
		ws[i] = ttWord(prefix, i+1, 1, length)
		vocab[ws[i]] = ttAtom{kind, length, i + 1, 0}
	}
	return strings.Join(ws, " ")
}

// ttDecode splits a string into atoms (lexical decoding).
func ttDecode(s string, vocab ttVocab) []ttAtom {
	out := []ttAtom{}
	rs := []rune(s)
	for i := 0; i < len(rs); {
		r := rs[i]
		if unicode.IsLetter(r) && r != '»' || unicode.IsDigit(r) {
			j := i
			for j < len(rs) && (unicode.IsLetter(rs[j]) || unicode.IsDigit(rs[j])) {
				j++
			}
			w := string(rs[i:j])
			if a, ok := vocab[strings.ToLower(w)]; ok && j-i == a.N {
				out = append(out, a)
			} else {
				out = append(out, ttAtom{"?", j - i, 0, 0})
			}
			i = j
			continue
		}
		if k, ok := ttCharKind[r]; ok {
			out = append(out, ttAtom{k, 1, 0, 0})
		} else {
			out = append(out, ttAtom{"?", 1, 0, 0})
		}
		i++
	}
	return out
}

func ttEsc(s string) string {
	s = strings.ReplaceAll(s, "&", "&amp;")
	s = strings.ReplaceAll(s, "<", "&lt;")
	s = strings.ReplaceAll(s, ">", "&gt;")
	return strings.ReplaceAll(s, `"`, "&quot;")
}

// ttSpaceNoise leaves the tokens alone but varies the whitespace around and between them.
func ttSpaceNoise(s string, g *docGen) string {
	switch g.rng.Intn(6) {
	case 0:
		return "  " + s + " "
	case 1:
		return "\n " + strings.Replace(s, " ", "  ", 1) + "\n"
	case 2:
		return strings.Replace(s, " ", "\n", 1)
	}
	return s
}

type ttPage struct {
	toks      []string
	h1, h2    string
	mk        string
	block     string // "", or tag of the repeating block
	blockPos  string // lead | mid
	blockText string
	h2Other   string // text of an h2 that has nothing to do with the title
	dropcap   bool   // the first letter of the headline sits in an element of its own
}

func (pg ttPage) render(titleRaw, h1Other, mkText string, paras []string) string {
	var sb strings.Builder
	sb.WriteString("<!DOCTYPE html><html><head><title>" + ttEsc(titleRaw) + "</title>")
	switch pg.mk {
	case "og":
		sb.WriteString(`<meta property="og:title" content="` + mkText + `"><meta property="og:type" content="website">` +
			`<meta property="og:url" content="http://pages.example.org/a1"><meta property="og:image" content="http://pages.example.org/i1.png">`)
	case "ie":
		sb.WriteString(`<meta name="title" content="` + mkText + `">`)
	}
	sb.WriteString("</head><body>")
	if pg.mk == "schema" {
		sb.WriteString(`<div itemscope itemtype="http://schema.org/Article"><meta itemprop="headline" content="` + mkText + `"></div>`)
	}
	norm := strings.Join(strings.Fields(titleRaw), " ")
	switch pg.h1 {
	case "title":
		if r, n := utf8.DecodeRuneInString(norm); pg.dropcap && n > 0 && unicode.IsLetter(r) {
			sb.WriteString(`<h1><span class="dropcap">` + norm[:n] + `</span>` + ttEsc(norm[n:]) + "</h1>")
		} else {
			sb.WriteString("<h1>" + ttEsc(norm) + "</h1>")
		}
	case "short", "long":
		sb.WriteString("<h1>" + h1Other + "</h1>")
	}
	if pg.h2 == "title" {
		sb.WriteString("<h2>" + ttEsc(norm) + "</h2>")
	}
	if pg.h2 == "long" {
		sb.WriteString("<h2>" + pg.h2Other + "</h2>")
	}
	blk := ""
	if pg.block != "" {
		blk = "<" + pg.block + ">" + ttEsc(pg.blockText) + "</" + pg.block + ">"
	}
	if pg.blockPos == "lead" {
		sb.WriteString(blk)
	}
	sb.WriteString(paras[0])
	if pg.blockPos != "lead" {
		sb.WriteString(blk)
	}
	sb.WriteString(paras[1] + paras[2] + "</body></html>")
	return sb.String()
}

func ttNorm(s string) string { return strings.Join(strings.Fields(s), " ") }

func ttText(n *html.Node) string {
	var sb strings.Builder
	var rec func(*html.Node)
	rec = func(m *html.Node) {
		if m.Type == html.TextNode {
			sb.WriteString(m.Data)
		}
		for c := m.FirstChild; c != nil; c = c.NextSibling {
			rec(c)
		}
	}
	rec(n)
	return sb.String()
}

func ttWalk(n *html.Node, f func(*html.Node)) {
	f(n)
	for c := n.FirstChild; c != nil; c = c.NextSibling {
		ttWalk(c, f)
	}
}

func ttTokens(s string) map[string]bool {
	m := map[string]bool{}
	for _, w := range strings.FieldsFunc(s, func(r rune) bool { return !(unicode.IsLetter(r) && r != '»' || unicode.IsDigit(r)) }) {
		m[strings.ToLower(w)] = true
	}
	return m
}

// ttSource reads the page facts back from the parsed tree.
type ttSource struct {
	title    string // whitespace-normalised text of the first <title>
	h1p      bool
	h1       string // normalised text of the first h1
	hm       bool   // some h1/h2 has exactly the title as its (trimmed) text
	mk       string // content of the markup title carrier present in the tree ("" = none)
	blocks   []string
	hasTitle bool
}

func ttReadSource(doc *html.Node) ttSource {
	var s ttSource
	var heads []*html.Node
	ttWalk(doc, func(n *html.Node) {
		if n.Type != html.ElementNode {
			return
		}
		switch n.Data {
		case "title":
			if !s.hasTitle {
				s.hasTitle = true
				s.title = ttNorm(ttText(n))
			}
		case "h1":
			if !s.h1p {
				s.h1p = true
				s.h1 = ttNorm(ttText(n))
			}
			heads = append(heads, n)
		case "h2":
			heads = append(heads, n)
		case "meta":
			if s.mk != "" {
				return
			}
			prop, _ := attr(n, "property")
			name, _ := attr(n, "name")
			ip, _ := attr(n, "itemprop")
			if prop == "og:title" || name == "title" || ip == "headline" {
				s.mk, _ = attr(n, "content")
			}
		}
		switch n.Data {
		case "h1", "h2", "h3", "p", "div":
			leaf := true
			for c := n.FirstChild; c != nil; c = c.NextSibling {
				if c.Type == html.ElementNode && c.Data != "span" { // a drop cap is part of the headline's text
					leaf = false
				}
			}
			if leaf {
				if t := ttNorm(ttText(n)); t != "" {
					s.blocks = append(s.blocks, t)
				}
			}
		}
	})
	for _, h := range heads {
		if strings.TrimSpace(ttText(h)) == s.title && s.title != "" {
			s.hm = true
		}
	}
	return s
}

func (s ttSource) event(vocab ttVocab) map[string]interface{} {
	seps := false
	for _, c := range ttSepChar {
		if strings.Contains(s.title, " "+c+" ") {
			seps = true
		}
	}
	n := utf8.RuneCountInString(s.title)
	return map[string]interface{}{
		"title": s.title, "atoms": ttDecode(s.title, vocab), "tlen": n,
		"lenok": n >= 15 && n <= 150, "hassep": seps, "hascolon": strings.Contains(s.title, ": "),
		"h1p": s.h1p, "h1": s.h1, "h1a": ttDecode(s.h1, vocab), "hm": s.hm,
		"mk": s.mk != "", "mka": ttDecode(s.mk, vocab),
	}
}

// ttObserve projects one result against the source facts of its own page.
func ttObserve(out callOutcome, s ttSource, vocab ttVocab) map[string]interface{} {
	o := map[string]interface{}{"err": true, "title": "", "atoms": []ttAtom{}, "tchars": 0, "mksupplied": false,
		"mktitle": "", "mkatoms": []ttAtom{}, "eqmk": false, "mksrc": false, "eqtitle": false, "subtitle": false, "eqh1": false,
		"neq": 0, "nother": 0, "leak": 0, "outeq": false, "outwords": 0}
	if out.err != nil || out.res == nil {
		return o
	}
	res := out.res
	t := res.Title
	o["err"] = false
	o["title"] = t
	o["atoms"] = ttDecode(t, vocab)
	o["tchars"] = utf8.RuneCountInString(t)
	mt := res.MarkupInfo.Title
	o["mksupplied"] = mt != ""
	o["mktitle"] = mt
	o["mkatoms"] = ttDecode(mt, vocab)
	o["eqmk"] = t == mt
	o["mksrc"] = mt == s.mk || mt == strings.TrimSpace(s.mk) // the parsers trim the value
	o["eqtitle"] = t == s.title
	o["subtitle"] = strings.Contains(s.title, t)
	o["eqh1"] = s.h1p && t == s.h1
	// blocks of the page carrying the title / words of the title
	tw := ttTokens(t)
	// (blocks and lines are compared with the title the way a reader compares them: a no-break space is a blank)
	tn := ttNorm(t)
	neq, nother := 0, 0
	for _, b := range s.blocks {
		if t != "" && b == tn {
			neq++
			continue
		}
		for w := range ttTokens(b) {
			if tw[w] {
				nother++
				break
			}
		}
	}
	o["neq"], o["nother"] = neq, nother
	outw := ttTokens(res.Text)
	leak := 0
	for w := range tw {
		if outw[w] {
			leak++
		}
	}
	o["leak"] = leak
	o["outwords"] = len(outw)
	outeq := false
	if t != "" {
		for _, line := range strings.Split(res.Text, "\n") {
			if ttNorm(line) == tn {
				outeq = true
			}
		}
		if res.Node != nil {
			ttWalk(res.Node, func(n *html.Node) {
				if n.Type == html.ElementNode && ttNorm(ttText(n)) == tn {
					outeq = true
				}
			})
		}
	}
	o["outeq"] = outeq
	return o
}

var ttBlocks = []string{"h2", "p", "h1", "h3", "div"}

func runTitle(c Case, e *env) []Event {
	g := newDocGen(e.seed, c.ID)
	var toks []string
	for _, v := range c.list("toks") {
		toks = append(toks, fmt.Sprint(v))
	}
	if toks == nil {
		toks = []string{}
	}
	pg := ttPage{toks: toks, h1: c.str("h1", "none"), h2: c.str("h2", "none"), mk: c.str("mk", "none")}
	block := c.str("block", "")
	if block == "" {
		block = ttBlocks[(c.ID+int(e.seed))%len(ttBlocks)]
	}
	pos := c.str("pos", "mid")

	vocab := ttVocab{}
	titleText, deco := ttTitleText(toks, g, vocab)
	titleRaw := ttSpaceNoise(titleText, g)
	h1Other := ""
	switch pg.h1 {
	case "short":
		h1Other = ttRunWords("h", "hd", 2, 4, vocab)
	case "long":
		h1Other = ttRunWords("h", "hd", 6, 4, vocab)
	}
	if pg.h2 == "long" {
		pg.h2Other = ttRunWords("g", "hg", 6, 4, vocab)
	}
	pg.dropcap = g.rng.Intn(4) == 0
	mkText := ""
	if pg.mk != "none" {
		mkText = ttRunWords("m", "mk", 3, 5, vocab)
		// typography in the markup title: a no-break space, two blanks, blanks at the ends - the title the page
		// reports and the title of the result are the same string whatever it looks like
		switch g.rng.Intn(8) {
		case 0:
			mkText, deco = strings.Replace(mkText, " ", "&nbsp;", 1), true
		case 1:
			mkText, deco = strings.Replace(mkText, " ", "  ", 1), true
		case 2:
			mkText, deco = " "+mkText+"  ", true
		}
	}
	paras := []string{g.para(50), g.para(48), g.para(52)}

	parse := func(p ttPage) (*html.Node, string, bool) {
		page := p.render(titleRaw, h1Other, mkText, paras)
		doc, err := html.Parse(strings.NewReader(page))
		return doc, page, err == nil
	}
	opt := OptSpec{Skip: true}
	if c.ID%16 == 0 {
		opt.Log = (c.ID / 16) % 16
	}
	p := map[string]interface{}{"toks": toks, "h1": pg.h1, "h2": pg.h2, "mk": pg.mk, "deco": deco}
	noRep := map[string]interface{}{"done": false, "block": block, "pos": pos, "same": true,
		"src": ttSource{}.event(vocab), "obs": ttObserve(callOutcome{err: fmt.Errorf("not run")}, ttSource{}, vocab)}

	// ---- run A
	docA, pageA, ok := parse(pg)
	if !ok {
		return []Event{{"ev": "Skip", "run": c.ID, "why": "unparseable"}}
	}
	srcA := ttReadSource(docA)
	call := Event{"ev": "Call", "run": c.ID, "prop": e.prop, "p": p, "src": srcA.event(vocab)}
	if showInputs {
		call["html"] = pageA
	}
	outA := applyTree(docA, opt)
	if ev, bad := outcomeEvent(c.ID, outA); bad {
		return []Event{call, ev}
	}
	obsA := ttObserve(outA, srcA, vocab)
	if srcA.mk != "" {
		count("markup_title")
	} else {
		count("no_markup_title")
	}
	if obsA["neq"].(int) > 0 {
		count("runA_page_has_title_block")
	}
	// coverage counters: the model's branch label of the case (copied into p by the
	// engine's expand step), the shape of the real result, the exactness precondition
	if br := c.str("br", ""); br != "" {
		count("branch_" + br)
	}
	ev := srcA.event(vocab)
	if srcA.mk == "" && ev["lenok"].(bool) && !ev["hassep"].(bool) && !ev["hascolon"].(bool) {
		count("plain_title_15_150")
	}
	switch {
	case obsA["err"].(bool):
		count("result_error")
	case obsA["mksupplied"].(bool):
		count("result_with_markup_title")
	case obsA["eqtitle"].(bool):
		count("result_whole_title")
	case obsA["eqh1"].(bool):
		count("result_h1_text")
	case obsA["subtitle"].(bool):
		count("result_part_of_title")
	default:
		count("result_other")
	}
	titleA := fmt.Sprint(obsA["title"])
	if obsA["err"].(bool) || titleA == "" {
		return []Event{call, {"ev": "Return", "run": c.ID, "obs": obsA, "rep": noRep}}
	}

	// ---- run B: the page plus a block whose text is the returned title
	pgB := pg
	pgB.block, pgB.blockPos, pgB.blockText = block, pos, titleA
	docB, pageB, ok := parse(pgB)
	if !ok {
		return []Event{call, {"ev": "Return", "run": c.ID, "obs": obsA, "rep": noRep}}
	}
	srcB := ttReadSource(docB)
	outB := applyTree(docB, opt)
	if ev, bad := outcomeEvent(c.ID, outB); bad {
		return []Event{call, ev}
	}
	obsB := ttObserve(outB, srcB, vocab)
	rep := map[string]interface{}{"done": true, "block": block, "pos": pos, "same": fmt.Sprint(obsB["title"]) == titleA,
		"src": srcB.event(vocab), "obs": obsB}
	if showInputs {
		call["htmlB"] = pageB
	}
	count("rep_pages")
	if obsB["neq"].(int) > 0 {
		count("rep_block_is_title")
	}

	// ---- run C (counter only): the same block with fresh words - would it be retained?
	ctlVocab := ttVocab{}
	var cw []string
	k := 0
	for _, f := range strings.Fields(titleA) {
		if len(ttTokens(f)) > 0 {
			k++
			f = ttWord("kx", k, 1, 6)
			ctlVocab[f] = ttAtom{"c", 6, k, 0}
		}
		cw = append(cw, f)
	}
	pgC := pgB
	pgC.blockText = strings.Join(cw, " ")
	if docC, _, ok := parse(pgC); ok && k > 0 {
		outC := applyTree(docC, OptSpec{Skip: true})
		if outC.err == nil && outC.res != nil && outC.panic == "" && !outC.hang {
			tw := ttTokens(outC.res.Text)
			kept := false
			for w := range ctlVocab {
				if tw[w] {
					kept = true
				}
			}
			if kept {
				count("rep_control_block_retained")
				if obsB["neq"].(int) > 0 && obsB["leak"].(int) == 0 {
					count("kept_and_title_block_removed")
				}
			} else {
				count("rep_control_block_dropped")
			}
		}
	}
	return []Event{call, {"ev": "Return", "run": c.ID, "obs": obsA, "rep": rep}}
}
