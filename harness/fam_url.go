package main

import (
	"fmt"
	"regexp"
	"strings"

	"golang.org/x/net/html"
)

// The "url" family (C06): a case (spec/UrlResolve.tla: Cases) names a page URL, a
// carrier (which element/attribute holds the URL) and the class of the reference
// (for srcset carriers: of each of 1..3 candidates). The handler builds a page where
// the carrier sits after a retained long paragraph, runs Apply with the page URL and
// projects
//   - Call:   the page URL and every URL-carrying attribute value of the PARSED source
//             tree, each split lexically into the record of UrlResolve.tla,
//   - Return: every URL-carrying attribute value of Result.Node outside embed
//             placeholders and every entry of Result.ContentImages, split the same way.
// Nothing is resolved or compared here: the expected value is computed by TLC
// (UrlResolve!Resolve) in spec/trace/UrlTrace.tla. net/url is not used.

func init() { register("C06", runURL) }

// urlRec is the abstract URL of UrlResolve.tla (field for field).
type urlRec struct {
	Scheme string   `json:"scheme"`
	Host   string   `json:"host"`
	Abs    bool     `json:"abs"`
	Segs   []string `json:"segs"`
	Dir    bool     `json:"dir"`
	HasQ   bool     `json:"hasq"`
	Query  string   `json:"query"`
	HasF   bool     `json:"hasf"`
	Frag   string   `json:"frag"`
	Bad    bool     `json:"bad"`
}

var rxURLScheme = regexp.MustCompile(`^[A-Za-z][A-Za-z0-9+.\-]*:`)

func urlIsHex(b byte) bool {
	return b >= '0' && b <= '9' || b >= 'a' && b <= 'f' || b >= 'A' && b <= 'F'
}

// urlLexBad: the two lexical facts that make a value no URI reference under any
// reading: an ASCII control character, or a '%' not followed by two hex digits.
func urlLexBad(s string) bool {
	for i := 0; i < len(s); i++ {
		b := s[i]
		if b < 0x20 || b == 0x7f {
			return true
		}
		if b == '%' && !(i+2 < len(s) && urlIsHex(s[i+1]) && urlIsHex(s[i+2])) {
			return true
		}
	}
	return false
}

// urlSplit splits a URL string into its five components (RFC 3986 appendix B, done
// with plain string operations) and the path into segments.
func urlSplit(s string) urlRec {
	u := urlRec{Segs: []string{}, Bad: urlLexBad(s)}
	rest := s
	if i := strings.IndexByte(rest, '#'); i >= 0 {
		u.HasF, u.Frag, rest = true, rest[i+1:], rest[:i]
	}
	if i := strings.IndexByte(rest, '?'); i >= 0 {
		u.HasQ, u.Query, rest = true, rest[i+1:], rest[:i]
	}
	if m := rxURLScheme.FindString(rest); m != "" {
		u.Scheme = strings.ToLower(m[:len(m)-1])
		rest = rest[len(m):]
	}
	if strings.HasPrefix(rest, "//") {
		rest = rest[2:]
		if i := strings.IndexByte(rest, '/'); i >= 0 {
			u.Host, rest = rest[:i], rest[i:]
		} else {
			u.Host, rest = rest, ""
		}
	}
	if strings.HasPrefix(rest, "/") {
		u.Abs = true
		rest = rest[1:]
	}
	if rest != "" {
		if strings.HasSuffix(rest, "/") {
			u.Dir = true
			rest = rest[:len(rest)-1]
		}
		u.Segs = strings.Split(rest, "/")
	}
	return u
}

var rxURLMarker = regexp.MustCompile(`u([0-9]+)`)

// urlMarker: the number of the marker u<N> in a value (0: none or more than one).
func urlMarker(s string) int {
	ms := rxURLMarker.FindAllStringSubmatch(s, -1)
	if len(ms) != 1 {
		return 0
	}
	n := 0
	fmt.Sscan(ms[0][1], &n)
	return n
}

// urlSrcsetCandidates: the URLs of a srcset value as the HTML standard's "parse a
// srcset attribute" collects them (split on ASCII whitespace; a URL ending in commas
// loses them and has no descriptors; otherwise descriptors run to the next comma).
func urlSrcsetCandidates(v string) []string {
	isWS := func(b byte) bool { return b == ' ' || b == '\t' || b == '\n' || b == '\f' || b == '\r' }
	var out []string
	i := 0
	for {
		for i < len(v) && (isWS(v[i]) || v[i] == ',') {
			i++
		}
		if i >= len(v) {
			return out
		}
		j := i
		for j < len(v) && !isWS(v[j]) {
			j++
		}
		u := v[i:j]
		i = j
		if strings.HasSuffix(u, ",") {
			u = strings.TrimRight(u, ",")
		} else {
			for i < len(v) && v[i] != ',' {
				i++
			}
		}
		out = append(out, u)
	}
}

type urlEntry struct {
	M       int    `json:"m"`
	Tag     string `json:"tag"`
	Attr    string `json:"attr"`
	Carrier string `json:"carrier"`
	Cls     string `json:"cls"`
	Leaf    string `json:"leaf"`
	Raw     string `json:"raw"`
	U       urlRec `json:"u"`
}

func urlHasAncestor(n *html.Node, tags ...string) bool {
	for p := n.Parent; p != nil; p = p.Parent {
		if p.Type == html.ElementNode {
			for _, t := range tags {
				if p.Data == t {
					return true
				}
			}
		}
	}
	return false
}

// urlCarrierOf names the carrier of a URL attribute from the tree alone.
func urlCarrierOf(n *html.Node, attrName string) string {
	switch {
	case n.Data == "a" && attrName == "href":
		switch {
		case urlHasAncestor(n, "figcaption"):
			return "a_figcap"
		case urlHasAncestor(n, "td", "th"):
			return "a_cell"
		case urlHasAncestor(n, "li"):
			return "a_li"
		case urlHasAncestor(n, "h2"):
			return "a_head"
		case n.FirstChild != nil && n.FirstChild.Type == html.ElementNode && n.FirstChild.Data == "em":
			return "a_wrap"
		}
		return "a_para"
	case n.Data == "img" && attrName == "src":
		switch {
		case urlHasAncestor(n, "table"):
			return "img_table"
		case urlHasAncestor(n, "picture"):
			return "picture_img"
		case urlHasAncestor(n, "figure"):
			return "fig_img"
		}
		return "img_src"
	case n.Data == "img" && attrName == "srcset":
		return "img_srcset"
	case n.Data == "source" && attrName == "srcset":
		return "picture_source_srcset"
	case n.Data == "video" && attrName == "src":
		return "video_src"
	case n.Data == "video" && attrName == "poster":
		return "video_poster"
	case n.Data == "source" && attrName == "src":
		return "source_src"
	case n.Data == "track" && attrName == "src":
		return "track_src"
	}
	return n.Data + "_" + attrName
}

// urlCollect lists the URL-carrying attribute values under root (a[href],
// img/source/track/video[src], [srcset] candidates, video[poster]), skipping embed
// placeholders when skipPh is set.
func urlCollect(root *html.Node, skipPh bool) []urlEntry {
	out := []urlEntry{}
	add := func(n *html.Node, attrName, raw string) {
		out = append(out, urlEntry{M: urlMarker(raw), Tag: n.Data, Attr: attrName, Carrier: urlCarrierOf(n, attrName),
			Cls: "filler", Raw: raw, U: urlSplit(raw)})
	}
	var walk func(n *html.Node)
	walk = func(n *html.Node) {
		if n.Type == html.ElementNode {
			if skipPh && isPlaceholder(n) {
				return
			}
			if n.Data == "a" {
				if v, ok := attr(n, "href"); ok {
					add(n, "href", v)
				}
			}
			switch n.Data {
			case "img", "source", "track", "video":
				if v, ok := attr(n, "src"); ok {
					add(n, "src", v)
				}
			}
			if n.Data == "video" {
				if v, ok := attr(n, "poster"); ok {
					add(n, "poster", v)
				}
			}
			if v, ok := attr(n, "srcset"); ok {
				for _, c := range urlSrcsetCandidates(v) {
					add(n, "srcset", c)
				}
			}
		}
		for c := n.FirstChild; c != nil; c = c.NextSibling {
			walk(c)
		}
	}
	walk(root)
	return out
}

var urlBases = map[string]string{
	"root0": "http://site.example.com",
	"root":  "https://site.example.com/",
	"file":  "https://site.example.com/news/story.html",
	"dir":   "http://site.example.com/news/archive/",
	"query": "https://site.example.com/news/view.php?id=7",
	"deep":  "http://site.example.com/a/b/c/d/e.html",
}

// urlRefString is the concrete member of a reference class (UrlResolve!RefOf).
func urlRefString(cls, leaf string) string {
	switch cls {
	case "rel":
		return leaf
	case "relqf":
		return "pix/" + leaf + "?v=1#top"
	case "reldir":
		return "sub/" + leaf + "/"
	case "embedq":
		return "/out/" + leaf + "?to=https://other.example.org/a&x=1"
	case "dot":
		return "./" + leaf
	case "up1":
		return "../" + leaf
	case "up2":
		return "../../" + leaf
	case "rootrel":
		return "/media/" + leaf
	case "schemerel":
		return "//cdn.example.net/p/" + leaf
	case "query":
		return "?id=" + leaf
	case "empty":
		return ""
	case "frag":
		return "#" + leaf
	case "data":
		return "data:text/plain," + leaf
	case "js":
		return "javascript:void(" + leaf + ")"
	case "http":
		return "http://other.example.org/pic/" + leaf
	case "https":
		return "https://other.example.org/pic/" + leaf + "?v=2"
	case "badesc":
		return "%zz/" + leaf
	case "ctl":
		return "c" + leaf // the leaf of this class starts with the control character
	}
	return leaf
}

type urlGen struct {
	g    *docGen
	n    int            // last marker
	cls  map[int]string // marker -> claimed class (tested references only)
	leaf map[int]string // marker -> leaf

	commaLeaf bool // the next references get a comma in their file name
}

func (ug *urlGen) ext(carrier string) string {
	switch {
	case strings.HasPrefix(carrier, "a_"):
		return ".html"
	case carrier == "video_src" || carrier == "source_src":
		return ".mp4"
	case carrier == "track_src":
		return ".vtt"
	}
	return ".png"
}

// ref returns the concrete reference of class cls for a carrier.
func (ug *urlGen) ref(cls, carrier string) string {
	ug.n++
	leaf := fmt.Sprintf("u%d%s", ug.n, ug.ext(carrier))
	if ug.commaLeaf {
		// CDN style file names carry commas; in a srcset only a comma followed by white space ends a candidate
		leaf = fmt.Sprintf("u%d,w_400%s", ug.n, ug.ext(carrier))
	}
	if cls == "ctl" {
		leaf = "\x01" + leaf
	}
	ug.cls[ug.n] = cls
	ug.leaf[ug.n] = leaf
	return urlRefString(cls, leaf)
}

// filler is an absolute URL for the attributes a carrier needs besides the tested one.
func (ug *urlGen) filler(ext string) string {
	ug.n++
	return fmt.Sprintf("https://static.example.org/f/u%d%s", ug.n, ext)
}

var urlDescX = []string{"1x", "2x", "1.5x"}
var urlDescW = []string{"320w", "640w", "1280w"}

func (ug *urlGen) srcset(classes []string, desc, carrier string) string {
	parts := []string{}
	ug.commaLeaf = ug.g.rng.Intn(3) == 0
	defer func() { ug.commaLeaf = false }()
	first := ""
	for i, cls := range classes {
		c := ""
		if i > 0 && ug.g.rng.Intn(4) == 0 {
			// one file named twice (for two densities / widths)
			c = first
		} else {
			c = ug.ref(cls, carrier)
		}
		if i == 0 {
			first = c
		}
		switch desc {
		case "x":
			c += " " + urlDescX[i]
		case "w":
			c += " " + urlDescW[i]
		}
		parts = append(parts, c)
	}
	return strings.Join(parts, ", ")
}

// urlCarrierHTML renders the tested carrier.
func (ug *urlGen) carrierHTML(carrier string, classes []string, desc string) string {
	g := ug.g
	w := g.words
	r1 := func() string { return ug.ref(classes[0], carrier) }
	// link text: usually words, sometimes only a symbol (footnote marks, arrows) - not a word for the word counter
	lt := func() string {
		if g.rng.Intn(4) == 0 {
			return g.pick("\u2020", "\u2191", "\u2192", "\u21a9", "\u00b6", "[*]", "\u00bb")
		}
		return w(2)
	}
	tbl := func(cell string) string {
		return "<table><tr><th>" + w(1) + "</th><th>" + w(1) + "</th></tr><tr><td>" + cell + "</td><td>" + w(2) +
			"</td></tr><tr><td>" + w(2) + "</td><td>" + w(2) + "</td></tr></table>"
	}
	switch carrier {
	case "a_para":
		return "<p>" + w(30) + ` <a href="` + r1() + `">` + lt() + "</a> " + w(30) + "</p>"
	case "a_wrap":
		// the whole text of the block sits in an inline element inside the link
		return `<p><a href="` + r1() + `"><em>` + w(45) + `</em></a></p>`
	case "a_head":
		return `<h2><a href="` + r1() + `"><span>` + w(6) + `</span></a></h2>`
	case "a_li":
		return "<ul><li>" + w(25) + ` <a href="` + r1() + `">` + lt() + "</a> " + w(25) + "</li><li>" + w(45) + "</li></ul>"
	case "a_figcap":
		return `<figure><img src="` + ug.filler(".png") + `"><figcaption>` + w(6) + ` <a href="` + r1() + `">` + lt() + "</a></figcaption></figure>"
	case "a_cell":
		return tbl(w(3) + ` <a href="` + r1() + `">` + lt() + "</a>")
	case "img_src":
		return `<img src="` + r1() + `" alt="` + w(2) + `">`
	case "img_srcset":
		return `<img src="` + ug.filler(".png") + `" srcset="` + ug.srcset(classes, desc, carrier) + `" alt="` + w(2) + `">`
	case "picture_source_srcset":
		return `<picture><source srcset="` + ug.srcset(classes, desc, carrier) + `" media="(min-width: 600px)"><img src="` + ug.filler(".png") + `" alt="` + w(2) + `"></picture>`
	case "picture_img":
		// the fallback image of a picture carries the tested reference
		return `<picture><source srcset="` + ug.filler(".webp") + `" type="image/webp"><img src="` + r1() + `" alt="` + w(2) + `"></picture>`
	case "video_src":
		return `<video controls src="` + r1() + `"></video>`
	case "video_poster":
		return `<video controls src="` + ug.filler(".mp4") + `" poster="` + r1() + `"></video>`
	case "source_src":
		return `<video controls><source src="` + r1() + `" type="video/mp4"></video>`
	case "track_src":
		return `<video controls src="` + ug.filler(".mp4") + `"><track kind="subtitles" srclang="en" src="` + r1() + `"></video>`
	case "img_table":
		return tbl(w(2) + ` <img src="` + r1() + `" alt="` + w(1) + `">`)
	case "fig_img":
		return `<figure><img src="` + r1() + `" alt="` + w(2) + `"><figcaption>` + w(7) + "</figcaption></figure>"
	}
	return ""
}

func runURL(c Case, e *env) []Event {
	g := newDocGen(e.seed, c.ID)
	ug := &urlGen{g: g, cls: map[int]string{}, leaf: map[int]string{}}
	carrier := c.str("carrier", "a_para")
	baseID := c.str("base", "file")
	n := c.num("n", 1)
	classes := []string{c.str("cls", "rel")}
	if n >= 2 {
		classes = append(classes, c.str("cls2", "rel"))
	}
	if n >= 3 {
		classes = append(classes, c.str("cls3", "rel"))
	}
	desc := c.str("desc", "none")
	pageURL, ok := urlBases[baseID]
	if !ok {
		return []Event{{"ev": "Skip", "run": c.ID, "why": "unknown base"}}
	}
	block := ug.carrierHTML(carrier, classes, desc)
	// the carrier follows a retained long paragraph; the wrapper varies with the seed
	switch (c.ID + int(e.seed)) % 4 {
	case 1:
		block = "<div>" + block + "</div>"
	case 2:
		block = "<section><div>" + block + "</div></section>"
	case 3:
		switch carrier { // phrasing content only: inline in a paragraph of its own
		case "img_src", "img_srcset", "picture_source_srcset", "picture_img", "video_src", "video_poster", "source_src", "track_src":
			block = "<p>" + g.words(22) + " " + block + " " + g.words(22) + "</p>"
		}
	}
	page := "<!DOCTYPE html><html><head><title>" + g.words(5) + "</title></head><body>" +
		g.para(70) + block + g.para(60) + g.para(65) + "</body></html>"
	doc, err := html.Parse(strings.NewReader(page))
	if err != nil {
		return []Event{{"ev": "Skip", "run": c.ID, "why": "unparseable"}}
	}
	opt := OptSpec{Skip: true, URL: pageURL}
	if c.ID%16 == 0 {
		opt.Log = (c.ID / 16) % 16
	}
	// source side: read from the parsed tree; class/leaf claims of the generator are
	// attached by marker (tested references only) for the fidelity check
	refs := urlCollect(doc, false)
	tested := map[int]bool{}
	for i := range refs {
		r := &refs[i]
		if cls, ok := ug.cls[r.M]; ok && r.M != 0 {
			r.Cls, r.Leaf = cls, ug.leaf[r.M]
			tested[r.M] = true
		} else if r.Raw == "" && classes[0] == "empty" && r.Carrier == carrier {
			r.Cls = "empty"
		}
	}
	call := Event{"ev": "Call", "run": c.ID, "prop": e.prop, "p": c.P, "baseraw": pageURL, "base": urlSplit(pageURL), "refs": refs}
	if showInputs {
		call["html"] = page
		call["url"] = pageURL
	}
	out := applyTree(doc, opt)
	if ev, bad := outcomeEvent(c.ID, out); bad {
		return []Event{call, ev}
	}
	urls := []urlEntry{}
	images := []urlEntry{}
	nodeOK := out.res != nil && out.res.Node != nil
	if nodeOK {
		urls = urlCollect(out.res.Node, true)
	}
	if out.res != nil {
		for _, s := range out.res.ContentImages {
			images = append(images, urlEntry{M: urlMarker(s), Tag: "", Attr: "ContentImages", Carrier: "content_images", Cls: "filler", Raw: s, U: urlSplit(s)})
		}
	}
	// sensitivity counters: was the tested reference found again in the output?
	seen, seenCI := false, false
	for _, o := range urls {
		hit := tested[o.M] && o.M != 0
		if classes[0] == "empty" && o.Raw == "" && o.Carrier == carrier {
			hit = true
		}
		if hit {
			seen = true
			cls := ug.cls[o.M]
			if o.M == 0 {
				cls = "empty"
			}
			count("cls_" + cls)
		}
	}
	for _, o := range images {
		if tested[o.M] && o.M != 0 {
			seenCI = true
		}
	}
	if seen {
		count("observed")
		count("car_" + carrier)
	} else {
		count("unobserved_" + carrier + "/" + classes[0])
	}
	if seenCI {
		count("in_content_images")
	}
	ret := Event{"ev": "Return", "run": c.ID, "obs": map[string]interface{}{
		"err": out.err != nil, "nodeok": nodeOK, "urls": urls, "images": images}}
	return []Event{call, ret}
}
