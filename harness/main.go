package main

import (
	"encoding/json"
	"flag"
	"fmt"
	"os"
	"path/filepath"
	"strings"
	"sync"
	"time"
)

// vdrive: the conformance driver. It reads abstract cases dumped by TLC, turns each
// into a concrete input, runs the real entry points of the repository's current
// working tree, and writes ndjson traces for the TLA+ trace specifications. It
// projects; it never judges.

type env struct {
	prop string
	seed int64
	tier string
}

type handler func(c Case, e *env) []Event

var handlers = map[string]handler{}

func register(props string, h handler) {
	for _, p := range strings.Split(props, ",") {
		handlers[p] = h
	}
}

type stats struct {
	Runs    int            `json:"runs"`
	Events  int            `json:"events"`
	Panics  int            `json:"panics"`
	Hangs   int            `json:"hangs"`
	Wall    float64        `json:"wall_s"`
	Shards  []string       `json:"shards"`
	Counter map[string]int `json:"counter"`
}

var (
	counterMu sync.Mutex
	counter   = map[string]int{}
)

func count(key string) {
	counterMu.Lock()
	counter[key]++
	counterMu.Unlock()
}

func cmdRun(args []string) int {
	fs := flag.NewFlagSet("run", flag.ExitOnError)
	prop := fs.String("prop", "", "property id")
	cases := fs.String("cases", "", "cases jsonl")
	out := fs.String("out", "", "output dir for trace shards")
	seed := fs.Int64("seed", 1, "seed")
	tier := fs.String("tier", "quick", "tier")
	workers := fs.Int("workers", 16, "workers")
	shards := fs.Int("shards", 8, "trace shards")
	fs.Parse(args)

	h, ok := handlers[*prop]
	if !ok {
		fmt.Fprintln(os.Stderr, "no handler for", *prop)
		return 2
	}
	cs, err := readCases(*cases)
	if err != nil {
		fmt.Fprintln(os.Stderr, "cases:", err)
		return 2
	}
	os.MkdirAll(*out, 0o755)
	e := &env{prop: *prop, seed: *seed, tier: *tier}
	start := time.Now()

	if *shards > len(cs) {
		*shards = 1
	}
	writers := make([]*traceWriter, *shards)
	names := make([]string, *shards)
	wmu := make([]sync.Mutex, *shards)
	for i := range writers {
		names[i] = filepath.Join(*out, fmt.Sprintf("trace-%02d.ndjson", i))
		w, err := newTraceWriter(names[i])
		if err != nil {
			fmt.Fprintln(os.Stderr, err)
			return 2
		}
		writers[i] = w
	}

	st := stats{}
	var smu sync.Mutex
	jobs := make(chan int, 1024)
	var wg sync.WaitGroup
	hung := false
	for w := 0; w < *workers; w++ {
		wg.Add(1)
		go func() {
			defer wg.Done()
			for i := range jobs {
				evs := h(cs[i], e)
				sh := i % *shards
				wmu[sh].Lock()
				for _, ev := range evs {
					writers[sh].emit(ev)
				}
				wmu[sh].Unlock()
				smu.Lock()
				st.Runs++
				st.Events += len(evs)
				for _, ev := range evs {
					switch ev["ev"] {
					case "Panic":
						st.Panics++
					case "Hang":
						st.Hangs++
						hung = true
					}
				}
				smu.Unlock()
			}
		}()
	}
	for i := range cs {
		jobs <- i
		if hung {
			break
		}
	}
	close(jobs)
	wg.Wait()
	for _, w := range writers {
		w.close()
	}
	st.Wall = time.Since(start).Seconds()
	st.Shards = names
	st.Counter = counter
	b, _ := json.Marshal(st)
	os.WriteFile(filepath.Join(*out, "stats.json"), b, 0o644)
	fmt.Println(string(b))
	return 0
}

// cmdShow prints the concrete input(s) and the events of one case (replay / samples).
func cmdShow(args []string) int {
	fs := flag.NewFlagSet("show", flag.ExitOnError)
	prop := fs.String("prop", "", "property id")
	cs := fs.String("case", "", "case json")
	seed := fs.Int64("seed", 1, "seed")
	tier := fs.String("tier", "quick", "tier")
	fs.Parse(args)
	h, ok := handlers[*prop]
	if !ok {
		fmt.Fprintln(os.Stderr, "no handler for", *prop)
		return 2
	}
	var c Case
	if err := json.Unmarshal([]byte(*cs), &c); err != nil {
		fmt.Fprintln(os.Stderr, err)
		return 2
	}
	showInputs = true
	e := &env{prop: *prop, seed: *seed, tier: *tier}
	for _, ev := range h(c, e) {
		b, _ := json.Marshal(ev)
		fmt.Println(string(b))
	}
	return 0
}

// showInputs makes handlers attach the concrete input to the Call event.
var showInputs = false

func main() {
	// logrus loggers created by the distiller write to os.Stderr; keep traces clean
	if dn, err := os.OpenFile(os.DevNull, os.O_WRONLY, 0); err == nil {
		realStderr = os.Stderr
		os.Stderr = dn
	}
	if len(os.Args) < 2 {
		fmt.Println("usage: vdrive run|show ...")
		os.Exit(2)
	}
	switch os.Args[1] {
	case "run":
		os.Exit(cmdRun(os.Args[2:]))
	case "show":
		os.Exit(cmdShow(os.Args[2:]))
	case "race":
		os.Exit(cmdRace(os.Args[2:]))
	default:
		fmt.Println("unknown command")
		os.Exit(2)
	}
}

var realStderr = os.Stderr
