package main

import (
	"bufio"
	"encoding/json"
	"flag"
	"fmt"
	"os"
	"os/exec"
	"path/filepath"
	"strings"
	"sync"
	"time"
)

// vdrive: the conformance driver. It reads abstract cases dumped by TLC, turns each
// into a concrete input, runs the real entry points of the repository's current
// working tree, and writes ndjson traces for the TLA+ trace specifications. It
// projects; it never judges.

type env struct {
	prop string
	seed int64
	tier string
}

type handler func(c Case, e *env) []Event

var handlers = map[string]handler{}

func register(props string, h handler) {
	for _, p := range strings.Split(props, ",") {
		handlers[p] = h
	}
}

type stats struct {
	Runs    int            `json:"runs"`
	Events  int            `json:"events"`
	Panics  int            `json:"panics"`
	Hangs   int            `json:"hangs"`
	Wall    float64        `json:"wall_s"`
	Shards  []string       `json:"shards"`
	Counter map[string]int `json:"counter"`
}

var (
	counterMu sync.Mutex
	counter   = map[string]int{}
)

func count(key string) {
	counterMu.Lock()
	counter[key]++
	counterMu.Unlock()
}

func cmdRun(args []string) int {
	fs := flag.NewFlagSet("run", flag.ExitOnError)
	prop := fs.String("prop", "", "property id")
	cases := fs.String("cases", "", "cases jsonl")
	out := fs.String("out", "", "output dir for trace shards")
	seed := fs.Int64("seed", 1, "seed")
	tier := fs.String("tier", "quick", "tier")
	workers := fs.Int("workers", 16, "worker processes")
	shards := fs.Int("shards", 8, "ignored (one shard per worker)")
	child := fs.Int("child", -1, "internal: index of this worker process")
	fs.Parse(args)
	_ = shards

	h, ok := handlers[*prop]
	if !ok {
		fmt.Fprintln(realStderr, "no handler for", *prop)
		return 2
	}
	os.MkdirAll(*out, 0o755)
	if *child >= 0 {
		return runChild(h, *prop, *cases, *out, *seed, *tier, *workers, *child)
	}
	// parent: one single-threaded worker process per shard (the verif hooks record
	// one call at a time per process)
	n := countLines(*cases)
	if n < *workers*4 {
		*workers = 1 + n/8
	}
	start := time.Now()
	type res struct {
		st  stats
		err error
	}
	results := make([]res, *workers)
	var wg sync.WaitGroup
	self, _ := os.Executable()
	for w := 0; w < *workers; w++ {
		wg.Add(1)
		go func(w int) {
			defer wg.Done()
			cmd := exec.Command(self, "run", "-prop", *prop, "-cases", *cases, "-out", *out, "-seed", fmt.Sprint(*seed),
				"-tier", *tier, "-workers", fmt.Sprint(*workers), "-child", fmt.Sprint(w))
			cmd.Env = append(os.Environ(), "GOMAXPROCS=2")
			b, err := cmd.Output()
			if err != nil {
				results[w].err = fmt.Errorf("worker %d: %v", w, err)
				return
			}
			lines := strings.Split(strings.TrimSpace(string(b)), "\n")
			if err := json.Unmarshal([]byte(lines[len(lines)-1]), &results[w].st); err != nil {
				results[w].err = fmt.Errorf("worker %d: bad stats: %v", w, err)
			}
		}(w)
	}
	wg.Wait()
	total := stats{Counter: map[string]int{}}
	for _, r := range results {
		if r.err != nil {
			fmt.Fprintln(realStderr, r.err)
			return 2
		}
		total.Runs += r.st.Runs
		total.Events += r.st.Events
		total.Panics += r.st.Panics
		total.Hangs += r.st.Hangs
		total.Shards = append(total.Shards, r.st.Shards...)
		for k, v := range r.st.Counter {
			total.Counter[k] += v
		}
	}
	total.Wall = time.Since(start).Seconds()
	b, _ := json.Marshal(total)
	os.WriteFile(filepath.Join(*out, "stats.json"), b, 0o644)
	fmt.Println(string(b))
	return 0
}

func countLines(path string) int {
	f, err := os.Open(path)
	if err != nil {
		return 0
	}
	defer f.Close()
	n := 0
	sc := bufio.NewScanner(f)
	sc.Buffer(make([]byte, 1<<20), 64<<20)
	for sc.Scan() {
		if len(sc.Bytes()) > 0 {
			n++
		}
	}
	return n
}

// runChild handles the cases whose line number is congruent to idx modulo workers.
func runChild(h handler, prop, cases, out string, seed int64, tier string, workers, idx int) int {
	f, err := os.Open(cases)
	if err != nil {
		fmt.Fprintln(realStderr, err)
		return 2
	}
	defer f.Close()
	name := filepath.Join(out, fmt.Sprintf("trace-%02d.ndjson", idx))
	w, err := newTraceWriter(name)
	if err != nil {
		fmt.Fprintln(realStderr, err)
		return 2
	}
	e := &env{prop: prop, seed: seed, tier: tier}
	st := stats{Shards: []string{name}}
	start := time.Now()
	sc := bufio.NewScanner(f)
	sc.Buffer(make([]byte, 1<<20), 64<<20)
	n := 0
	var mine []Case
	for sc.Scan() {
		line := sc.Bytes()
		if len(line) == 0 {
			continue
		}
		n++
		if (n-1)%workers != idx {
			continue
		}
		var c Case
		if err := json.Unmarshal(line, &c); err != nil {
			fmt.Fprintln(realStderr, "case line", n, err)
			return 2
		}
		if c.ID == 0 {
			c.ID = n
		}
		mine = append(mine, c)
	}
	if reverseOrder {
		// the same cases in the opposite order (C11: results must not depend on earlier calls)
		for i, j := 0, len(mine)-1; i < j; i, j = i+1, j-1 {
			mine[i], mine[j] = mine[j], mine[i]
		}
	}
	for _, c := range mine {
		evs := h(c, e)
		st.Runs++
		st.Events += len(evs)
		stop := false
		for _, ev := range evs {
			w.emit(ev)
			switch ev["ev"] {
			case "Panic":
				st.Panics++
			case "Hang":
				st.Hangs++
				stop = true
			}
		}
		if stop {
			break // a hung call leaves its goroutine (and the recorder) behind
		}
	}
	w.close()
	st.Wall = time.Since(start).Seconds()
	st.Counter = counter
	b, _ := json.Marshal(st)
	fmt.Println(string(b))
	return 0
}

// cmdShow prints the concrete input(s) and the events of one case (replay / samples).
func cmdShow(args []string) int {
	fs := flag.NewFlagSet("show", flag.ExitOnError)
	prop := fs.String("prop", "", "property id")
	cs := fs.String("case", "", "case json")
	seed := fs.Int64("seed", 1, "seed")
	tier := fs.String("tier", "quick", "tier")
	fs.Parse(args)
	h, ok := handlers[*prop]
	if !ok {
		fmt.Fprintln(os.Stderr, "no handler for", *prop)
		return 2
	}
	var c Case
	if err := json.Unmarshal([]byte(*cs), &c); err != nil {
		fmt.Fprintln(os.Stderr, err)
		return 2
	}
	showInputs = true
	e := &env{prop: *prop, seed: *seed, tier: *tier}
	for _, ev := range h(c, e) {
		b, _ := json.Marshal(ev)
		fmt.Println(string(b))
	}
	return 0
}

// reverseOrder (env VDRIVE_REVERSE=1): process the cases in reverse order and shift run ids by 500.
var reverseOrder = os.Getenv("VDRIVE_REVERSE") == "1"

// showInputs makes handlers attach the concrete input to the Call event.
var showInputs = false

func main() {
	// logrus loggers created by the distiller write to os.Stderr; keep traces clean
	if dn, err := os.OpenFile(os.DevNull, os.O_WRONLY, 0); err == nil {
		realStderr = os.Stderr
		os.Stderr = dn
	}
	if len(os.Args) < 2 {
		fmt.Println("usage: vdrive run|show ...")
		os.Exit(2)
	}
	switch os.Args[1] {
	case "run":
		os.Exit(cmdRun(os.Args[2:]))
	case "show":
		os.Exit(cmdShow(os.Args[2:]))
	case "scan":
		os.Exit(cmdScan(os.Args[2:]))
	case "race":
		os.Exit(cmdRace(os.Args[2:]))
	default:
		fmt.Println("unknown command")
		os.Exit(2)
	}
}

var realStderr = os.Stderr
