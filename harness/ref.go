package main

import (
	"regexp"
	"strconv"
	"strings"

	"golang.org/x/net/html"
)

// Reference abstraction: source-side facts, computed from the PARSED tree that is
// handed to the distiller (never from the generator's strings, so HTML5 parser
// fix-ups and charset guessing cannot desynchronise them), and written from the
// property statements only - no distiller code is called here.

var rxTok = regexp.MustCompile(`zq(\d+)`)
var rxTokWord = regexp.MustCompile(`^zq(\d+)$`)
var rxMarker = regexp.MustCompile(`\bm(\d+)\b|/m(\d+)[.\-]`)

// litWords: words that are also element names, tracked like tokens where they are the whole text of a node
// (<em>style</em>); ids far above every generated token
var litWords = map[string]int{"style": 9000001, "script": 9000002, "head": 9000003, "noscript": 9000004,
	"title": 9000006, "body": 9000007, "template": 9000008}

// trackLitWords: only the pages of C03 write such words on purpose (one run at a time per process)
var trackLitWords = false

func tokensOf(s string) []int {
	ms := rxTok.FindAllStringSubmatch(s, -1)
	out := make([]int, 0, len(ms))
	for _, m := range ms {
		n, _ := strconv.Atoi(m[1])
		out = append(out, n)
	}
	return out
}

// wordsToTokens maps every whitespace-separated word to its token id, 0 for a
// word that is not a source token (an invented or mangled word).
func wordsToTokens(s string) []int {
	fs := strings.Fields(s)
	out := make([]int, 0, len(fs))
	for _, f := range fs {
		if m := rxTokWord.FindStringSubmatch(f); m != nil {
			n, _ := strconv.Atoi(m[1])
			out = append(out, n)
		} else {
			out = append(out, 0)
		}
	}
	return out
}

func attr(n *html.Node, key string) (string, bool) {
	for _, a := range n.Attr {
		if a.Key == key {
			return a.Val, true
		}
	}
	return "", false
}

// refHidden: "hidden by the hidden attribute, inline display:none,
// visibility:hidden/collapse or aria-hidden=true" - read as CSS/HTML define it.
func refHidden(n *html.Node) bool {
	if n.Type != html.ElementNode {
		return false
	}
	if _, ok := attr(n, "hidden"); ok {
		return true
	}
	if v, ok := attr(n, "aria-hidden"); ok && v == "true" {
		cls, _ := attr(n, "class")
		if !strings.Contains(cls, "fallback-image") {
			return true
		}
	}
	if st, ok := attr(n, "style"); ok {
		for _, decl := range strings.Split(st, ";") {
			kv := strings.SplitN(decl, ":", 2)
			if len(kv) != 2 {
				continue
			}
			prop := strings.ToLower(strings.TrimSpace(kv[0]))
			val := strings.ToLower(strings.TrimSpace(kv[1]))
			val = strings.TrimSpace(strings.TrimSuffix(val, "!important"))
			if prop == "display" && val == "none" {
				return true
			}
			if prop == "visibility" && (val == "hidden" || val == "collapse") {
				return true
			}
		}
	}
	return false
}

var neverTags = map[string]bool{"script": true, "style": true, "head": true}
var skipTags = map[string]bool{"form": true, "input": true, "button": true, "select": true, "option": true,
	"textarea": true, "noscript": true, "svg": true, "object": true, "embed": true, "applet": true, "iframe": true}
var nestTags = map[string]bool{"ul": true, "ol": true, "li": true, "blockquote": true, "pre": true}
var simpleInline = map[string]bool{"b": true, "i": true, "em": true, "strong": true, "span": true, "u": true,
	"code": true, "font": true, "a": true}

type interner struct {
	ids  map[string]int
	strs []string
}

func newInterner() *interner { return &interner{ids: map[string]int{}} }
func (in *interner) id(s string) int {
	if v, ok := in.ids[s]; ok {
		return v
	}
	in.strs = append(in.strs, s)
	in.ids[s] = len(in.strs)
	return len(in.strs)
}

// SrcMedia is one media element of the source (image, figure, video, recognised
// embed, data table) at a position the main walk can reach.
type SrcMedia struct {
	Marker int    `json:"m"`    // unique marker id (for tables: first header token)
	Kind   string `json:"kind"` // img, fig, vid, emb, tbl
	Prev   int    `json:"prev"` // nearest preceding eligible word-bearing text node, 0 if none
	Node   int    `json:"node"` // for tables: first text node inside the table
}

// flag bits of a source text node
const (
	fNever = 1 // under script/style/head, in a comment, or under a hidden element
	fSkip  = 2 // under a form control, noscript, svg, object, embed, applet, iframe
	fExem  = 4 // has a table or figure ancestor (the stated exception for fSkip)
	fPh    = 8 // inside a twitter-tweet blockquote (may be moved into an embed placeholder)
)

// SrcNode is one word-bearing text node (or comment) of the source, in document
// order. An abstract word is the pair (node index, k) with k in 1..W.
type SrcNode struct {
	W     int `json:"w"` // number of words (tokens)
	F     int `json:"f"` // flag bits
	Para  int `json:"p"` // id of the enclosing simple paragraph, 0 if none
	Chain int `json:"c"` // interned chain of ul/ol/li/blockquote/pre ancestors
	Tbl   int `json:"t"` // id of the outermost enclosing <table>, 0 if none
}

// Src is the reference abstraction of one source document.
type Src struct {
	Nodes []SrcNode  `json:"nodes"`
	Media []SrcMedia `json:"media"`
	NPara int        `json:"npara"`
	NTbl  int        `json:"ntbl"`
	// rows and cells a reader sees in each outermost table (index = table id - 1)
	Tables []TblShape `json:"tables"`

	tok map[int][2]int // token id -> (node, k); not part of the trace
	// non-token words of skip-class text under a table or figure (raw noscript /
	// iframe / textarea content): legitimate source words that cannot be placed
	raw map[string]bool
	// words of the visible source text that are made of several tokens: a word that continues across an inline
	// element (zq1<b>zq2</b>) is one word in the source already
	glued map[string]bool
}

type refWalker struct {
	src    *Src
	chains *interner
	paraID int
	tblID  int
	// walk state
	lastText int // the last eligible word-bearing text node
}

// harmlessAttr: attributes that leave an element what it is - visible, inline, not marked as anything
// (the generator's noise: handlers, data-*, title, lang, neutral id/class values, a colour, aria-hidden="false").
var rxNeutralName = regexp.MustCompile(`^(nx|kx)\d+$`)

func harmlessAttr(a html.Attribute) bool {
	switch {
	case a.Key == "title" || a.Key == "lang" || a.Key == "zqunknown" || strings.HasPrefix(a.Key, "data-") || strings.HasPrefix(a.Key, "on"):
		return true
	case a.Key == "aria-hidden":
		return a.Val == "false"
	case a.Key == "id" || a.Key == "class":
		return rxNeutralName.MatchString(a.Val)
	case a.Key == "style":
		return a.Val == "color:red"
	}
	return false
}

// paraLike: the elements whose content, when it is nothing but text, line breaks and plain inline formatting,
// forms one paragraph of running text: a p, and a table cell or list item (or div) holding such content directly
var paraLike = map[string]bool{"p": true, "td": true, "th": true, "li": true, "div": true, "dd": true, "dt": true}

func isSimplePara(p *html.Node) bool {
	if p.Type != html.ElementNode || !paraLike[p.Data] {
		return false
	}
	for _, a := range p.Attr {
		if !harmlessAttr(a) {
			return false
		}
	}
	ok := true
	hasWord := false
	var rec func(n *html.Node)
	rec = func(n *html.Node) {
		for c := n.FirstChild; c != nil && ok; c = c.NextSibling {
			switch c.Type {
			case html.TextNode:
				if len(tokensOf(c.Data)) > 0 {
					hasWord = true
				}
			case html.ElementNode:
				if c.Data == "br" {
					continue
				}
				if !simpleInline[c.Data] {
					ok = false
					return
				}
				for _, a := range c.Attr {
					if c.Data == "a" && a.Key == "href" {
						if strings.Contains(a.Val, "action=edit") {
							ok = false
						}
						continue
					}
					if c.Data == "font" && (a.Key == "color" || a.Key == "face" || a.Key == "size") {
						continue
					}
					if harmlessAttr(a) {
						continue
					}
					ok = false
				}
				rec(c)
			default:
				ok = false
			}
		}
	}
	rec(p)
	return ok && hasWord
}

type refCtx struct {
	never, skip, exem, ph bool
	para                  int
	chain                 string
	tbl                   int
	inMedia               bool // inside an element that is itself a media unit
}

func mediaMarkerOf(n *html.Node) int {
	var found int
	var rec func(x *html.Node)
	rec = func(x *html.Node) {
		if found != 0 {
			return
		}
		if x.Type == html.ElementNode {
			for _, a := range x.Attr {
				if m := rxMarker.FindStringSubmatch(a.Val); m != nil {
					s := m[1]
					if s == "" {
						s = m[2]
					}
					found, _ = strconv.Atoi(s)
					return
				}
			}
		}
		// the real image of a lazily loaded figure may only exist as the raw text of a noscript element
		if x.Type == html.TextNode && x.Parent != nil && x.Parent.Type == html.ElementNode && x.Parent.Data == "noscript" {
			if m := rxMarker.FindStringSubmatch(x.Data); m != nil {
				s := m[1]
				if s == "" {
					s = m[2]
				}
				found, _ = strconv.Atoi(s)
				return
			}
		}
		for c := x.FirstChild; c != nil; c = c.NextSibling {
			rec(c)
		}
	}
	rec(n)
	return found
}

// lastAnchorMarker: the marker in the href of the last anchor of a subtree (tweet id)
func lastAnchorMarker(n *html.Node) int {
	found := 0
	var rec func(x *html.Node)
	rec = func(x *html.Node) {
		if x.Type == html.ElementNode && x.Data == "a" {
			found = 0
			if h, ok := attr(x, "href"); ok {
				if m := rxMarker.FindStringSubmatch(h); m != nil {
					s := m[1]
					if s == "" {
						s = m[2]
					}
					found, _ = strconv.Atoi(s)
				}
			}
		}
		for c := x.FirstChild; c != nil; c = c.NextSibling {
			rec(c)
		}
	}
	rec(n)
	return found
}

func firstTokenIn(n *html.Node) int {
	var found int
	var rec func(x *html.Node)
	rec = func(x *html.Node) {
		if found != 0 {
			return
		}
		if x.Type == html.TextNode {
			if t := tokensOf(x.Data); len(t) > 0 {
				found = t[0]
			}
			return
		}
		for c := x.FirstChild; c != nil; c = c.NextSibling {
			rec(c)
		}
	}
	rec(n)
	return found
}

func hasClass(n *html.Node, c string) bool {
	v, _ := attr(n, "class")
	return strings.Contains(v, c)
}

func tableLooksData(n *html.Node) bool {
	// used only to list tables as media candidates in generated pages: the
	// generator's data tables have a th header and >= 2 rows
	ths := 0
	rows := 0
	var rec func(x *html.Node)
	rec = func(x *html.Node) {
		if x.Type == html.ElementNode {
			if x.Data == "th" {
				ths++
			}
			if x.Data == "tr" {
				rows++
			}
		}
		for c := x.FirstChild; c != nil; c = c.NextSibling {
			rec(c)
		}
	}
	rec(n)
	return ths > 0 && rows >= 2
}

func (w *refWalker) addNode(toks []int, f, para int, chain string, tbl int) int {
	w.src.Nodes = append(w.src.Nodes, SrcNode{W: len(toks), F: f, Para: para, Chain: w.chains.id(chain), Tbl: tbl})
	idx := len(w.src.Nodes)
	for k, t := range toks {
		if _, dup := w.src.tok[t]; !dup {
			w.src.tok[t] = [2]int{idx, k + 1}
		}
	}
	return idx
}

func (w *refWalker) walk(n *html.Node, ctx refCtx) {
	switch n.Type {
	case html.CommentNode:
		if toks := tokensOf(n.Data); len(toks) > 0 {
			w.addNode(toks, fNever, 0, ctx.chain, ctx.tbl)
		}
		return
	case html.TextNode:
		toks := tokensOf(n.Data)
		if id, ok := litWords[strings.TrimSpace(n.Data)]; ok && len(toks) == 0 && trackLitWords {
			// a text node that is nothing but an everyday word which is also the name of an element
			toks = []int{id}
		}
		if ctx.skip && ctx.exem {
			for _, wd := range strings.Fields(n.Data) {
				if !rxTokWord.MatchString(wd) {
					w.src.raw[wd] = true
				}
			}
		}
		if len(toks) == 0 {
			return
		}
		f := 0
		if ctx.never {
			f |= fNever
		}
		if ctx.skip {
			f |= fSkip
		}
		if ctx.exem {
			f |= fExem
		}
		if ctx.ph {
			f |= fPh
		}
		idx := w.addNode(toks, f, ctx.para, ctx.chain, ctx.tbl)
		if !ctx.never && !ctx.skip && !ctx.inMedia && !ctx.ph {
			w.lastText = idx
		}
		return
	case html.ElementNode:
		tag := n.Data
		if neverTags[tag] || refHidden(n) {
			ctx.never = true
		}
		if skipTags[tag] {
			ctx.skip = true
		}
		eligible := !ctx.never && !ctx.skip && !ctx.inMedia && !ctx.ph
		switch tag {
		case "table":
			if ctx.tbl == 0 {
				w.tblID++
				ctx.tbl = w.tblID
				w.src.Tables = append(w.src.Tables, tableShape(n))
			}
			if eligible && tableLooksData(n) {
				w.src.Media = append(w.src.Media, SrcMedia{Marker: firstTokenIn(n), Kind: "tbl", Prev: w.lastText, Node: len(w.src.Nodes) + 1})
				ctx.inMedia = true
			}
			ctx.exem = true
		case "figure":
			if eligible {
				if m := mediaMarkerOf(n); m != 0 {
					w.src.Media = append(w.src.Media, SrcMedia{Marker: m, Kind: "fig", Prev: w.lastText})
				}
				ctx.inMedia = true
			}
			ctx.exem = true
		case "img", "picture":
			if eligible {
				if m := mediaMarkerOf(n); m != 0 {
					w.src.Media = append(w.src.Media, SrcMedia{Marker: m, Kind: "img", Prev: w.lastText})
				}
				ctx.inMedia = true
			}
		case "span":
			if eligible && hasClass(n, "lazy-image-placeholder") {
				if m := mediaMarkerOf(n); m != 0 {
					w.src.Media = append(w.src.Media, SrcMedia{Marker: m, Kind: "img", Prev: w.lastText})
				}
				ctx.inMedia = true
			}
		case "video":
			if eligible {
				if m := mediaMarkerOf(n); m != 0 {
					w.src.Media = append(w.src.Media, SrcMedia{Marker: m, Kind: "vid", Prev: w.lastText})
				}
				ctx.inMedia = true
			}
		case "iframe":
			// the skip flag was set above; an allow-listed frame is a media unit
			if !ctx.never && !ctx.inMedia && !ctx.ph {
				src, _ := attr(n, "src")
				if strings.Contains(src, "youtube") || strings.Contains(src, "vimeo") || strings.Contains(src, "twitter") {
					if m := mediaMarkerOf(n); m != 0 {
						w.src.Media = append(w.src.Media, SrcMedia{Marker: m, Kind: "emb", Prev: w.lastText})
					}
				}
			}
		case "object":
			// a legacy YouTube embed: <object data=...> or <object><param name="movie" value=...>
			if !ctx.never && !ctx.inMedia && !ctx.ph {
				src, _ := attr(n, "data")
				for c := n.FirstChild; c != nil; c = c.NextSibling {
					if c.Type == html.ElementNode && c.Data == "param" {
						if v, _ := attr(c, "value"); strings.Contains(v, "youtube") {
							src = v
						}
					}
				}
				if strings.Contains(src, "youtube") {
					if m := mediaMarkerOf(n); m != 0 {
						w.src.Media = append(w.src.Media, SrcMedia{Marker: m, Kind: "emb", Prev: w.lastText})
					}
				}
			}
		case "blockquote":
			if hasClass(n, "twitter-tweet") {
				if eligible {
					if m := lastAnchorMarker(n); m != 0 {
						w.src.Media = append(w.src.Media, SrcMedia{Marker: m, Kind: "emb", Prev: w.lastText})
					}
				}
				ctx.ph = true
			}
		}
		if paraLike[tag] && ctx.para == 0 && isSimplePara(n) {
			w.paraID++
			ctx.para = w.paraID
		}
		if nestTags[tag] {
			ctx.chain += "/" + tag
		}
	}
	for c := n.FirstChild; c != nil; c = c.NextSibling {
		w.walk(c, ctx)
	}
}

// refAbstract computes the reference abstraction of the tree rooted at root.
func refAbstract(root *html.Node, chains *interner) *Src {
	w := &refWalker{src: &Src{Nodes: []SrcNode{}, Media: []SrcMedia{}, tok: map[int][2]int{}, raw: map[string]bool{}, Tables: []TblShape{}}, chains: chains}
	w.walk(root, refCtx{})
	w.src.NPara = w.paraID
	w.src.NTbl = w.tblID
	w.src.glued = gluedWords(root)
	return w.src
}

// TblShape: how many rows and cells of a table (nested tables included) are there for a reader - a hidden row or
// cell, or one inside a hidden part, is not.
type TblShape struct {
	Rows  int `json:"rows"`
	Cells int `json:"cells"`
}

func tableShape(t *html.Node) TblShape {
	var sh TblShape
	var rec func(n *html.Node)
	rec = func(n *html.Node) {
		for c := n.FirstChild; c != nil; c = c.NextSibling {
			if c.Type != html.ElementNode || refHidden(c) || c.Data == "script" || c.Data == "style" || c.Data == "template" {
				continue
			}
			switch c.Data {
			case "tr":
				sh.Rows++
			case "td", "th":
				sh.Cells++
			}
			rec(c)
		}
	}
	rec(t)
	return sh
}

var rxGluedWord = regexp.MustCompile(`^(?:zq\d+){2,}$`)

// gluedWords reads the source as a reader joins it - text nodes run on across inline elements, anything else and a
// line break end the word - and returns the words that consist of several tokens.
func gluedWords(root *html.Node) map[string]bool {
	out := map[string]bool{}
	var sb strings.Builder
	var rec func(n *html.Node)
	rec = func(n *html.Node) {
		switch n.Type {
		case html.TextNode:
			sb.WriteString(n.Data)
			return
		case html.ElementNode:
			switch n.Data {
			case "script", "style", "head", "template", "title":
				return
			}
			if refHidden(n) {
				return
			}
			if !lineTags[n.Data] {
				sb.WriteString(" ")
				defer sb.WriteString(" ")
			}
		}
		for c := n.FirstChild; c != nil; c = c.NextSibling {
			rec(c)
		}
	}
	rec(root)
	for _, f := range strings.Fields(sb.String()) {
		if rxGluedWord.MatchString(f) {
			out[f] = true
		}
	}
	return out
}
