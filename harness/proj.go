package main

import (
	"crypto/sha1"
	"encoding/hex"
	"fmt"
	"sort"
	"strconv"
	"strings"
	"unicode"

	distiller "github.com/markusmobius/go-domdistiller"
	"golang.org/x/net/html"
)

// Projection of a real Result onto the abstract observation the specs talk about.
// Pure projection: decoding of unique tokens/markers, structural facts of the
// output tree, digests. No property is judged here - that is done by TLC on the
// trace (spec/*Trace.tla).

// Obs is the observation of one call.
type Obs struct {
	Err    bool `json:"err"`
	NodeOK bool `json:"nodeok"` // Result.Node is a non-nil <div> element

	Txt []Run  `json:"txt"` // Result.Text word by word, as maximal runs of consecutive source words
	Htm []HRun `json:"htm"` // visible words of Result.Node outside embed placeholders (runs carry chain / table flag)
	Vis []Run  `json:"vis"` // visible words of Result.Node including embed placeholders, canonical runs
	// joints: the source words after which the word goes on without a blank (10<sup>th</sup>), per view
	TxtJ  []int `json:"txtj"`
	VisJ  []int `json:"visj"`
	Glued int   `json:"glued"` // number of joints in the text view
	// the outermost tables of the distilled HTML (outside embed placeholders): the source table their first known
	// word comes from (0: none) and the rows / cells they hold
	OutTables []OutTbl `json:"outtables"`
	Vnp       []Run    `json:"vnp"` // visible words of Result.Node outside embed placeholders, canonical runs
	Ph        []Run    `json:"ph"`  // words inside embed placeholders
	Phc       []HRun   `json:"phc"` // the visible words inside embed placeholders with their chains (a tweet is a quote)
	Hid       []Run    `json:"hid"` // words under hidden elements of the output
	Cmt       []Run    `json:"cmt"` // words inside comment nodes of the output

	MediaKept []bool `json:"mkept"` // per Src.Media entry: is it present in Result.Node
	NImgOut   int    `json:"nimgout"`

	CI     []int `json:"ci"`     // ContentImages, interned URL strings
	DomImg []int `json:"domimg"` // src / srcset candidates of img and source elements of Result.Node, document order

	WC      int  `json:"wc"`      // Result.WordCount
	TxtWC   int  `json:"txtwc"`   // number of words in Result.Text
	NTitle  int  `json:"ntitle"`  // len(Result.Title)
	OnlyTxt bool `json:"onlytxt"` // Result.Node has no table/figure/img/video/placeholder

	// attribute / element census of Result.Node (C05); "out" = outside the
	// placeholder wrapper element itself
	Census map[string]int `json:"census"`

	// embed placeholders and frames (C19)
	Placeholders [][]string `json:"phs"`    // [type, id]
	Frames       int        `json:"frames"` // iframes outside tables/figcaptions/placeholders
	FramesPh     int        `json:"framesph"`

	// digests of every result field (C10/C11/C13)
	Dig map[string]string `json:"dig"`
}

func dig(s string) string {
	h := sha1.Sum([]byte(s))
	return hex.EncodeToString(h[:6])
}

func renderNode(n *html.Node) string {
	if n == nil {
		return "<nil>"
	}
	var sb strings.Builder
	html.Render(&sb, n)
	return sb.String()
}

func isPlaceholder(n *html.Node) bool {
	if n.Type != html.ElementNode || n.Data != "div" {
		return false
	}
	c, _ := attr(n, "class")
	return c == "embed-placeholder"
}

func outHidden(n *html.Node) bool {
	return refHidden(n)
}

// Run is a maximal run of consecutive words (N, A..B) of source text node N; N = 0
// stands for one word that is not a source word (A = B = 0).
type Run struct {
	N int `json:"n"`
	A int `json:"a"`
	B int `json:"b"`
}

// HRun is a Run of the HTML view together with where it sits in the output.
type HRun struct {
	N int  `json:"n"`
	A int  `json:"a"`
	B int  `json:"b"`
	C int  `json:"c"` // interned output chain of ul/ol/li/blockquote/pre ancestors
	T bool `json:"t"` // under a <table> in the output
}

func (s *Src) hasTok(id int) bool {
	_, ok := s.tok[id]
	return ok
}

type OutTbl struct {
	T     int `json:"t"`
	Rows  int `json:"rows"`
	Cells int `json:"cells"`
}

func (p *projector) outTables(root *html.Node) {
	var rec func(n *html.Node, inPh bool)
	rec = func(n *html.Node, inPh bool) {
		if n.Type == html.ElementNode {
			if isPlaceholder(n) {
				inPh = true
			}
			if n.Data == "table" && !inPh {
				sh := tableShape(n)
				t := 0
				if p.src != nil {
					for _, tok := range tokensOf(ttTextOf(n)) {
						if nk, ok := p.src.tok[tok]; ok && nk[0] >= 1 && nk[0] <= len(p.src.Nodes) {
							t = p.src.Nodes[nk[0]-1].Tbl
							break
						}
					}
				}
				p.obs.OutTables = append(p.obs.OutTables, OutTbl{T: t, Rows: sh.Rows, Cells: sh.Cells})
				return
			}
		}
		for c := n.FirstChild; c != nil; c = c.NextSibling {
			rec(c, inPh)
		}
	}
	rec(root, false)
}

func ttTextOf(n *html.Node) string {
	var sb strings.Builder
	var rec func(*html.Node)
	rec = func(m *html.Node) {
		if m.Type == html.TextNode {
			sb.WriteString(m.Data + " ")
		}
		for c := m.FirstChild; c != nil; c = c.NextSibling {
			rec(c)
		}
	}
	rec(n)
	return sb.String()
}

type projector struct {
	obs    *Obs
	src    *Src
	chains *interner
	urls   *interner
	// the word at the end of the last text node of each category that did not end in white space: it continues
	// in the next text node of that category unless a box of its own (a non-inline element, a line break) intervenes
	pend map[string]*pendingWord
	// where words() notes the joints of the words it splits into source words (nil: nowhere)
	jrec *[]int
}

type pendingWord struct {
	s    string
	emit func(string)
}

// lineTags: elements that do not break the line. A word continues across them: H<sub>2</sub>O is one word to every
// reader of the page. Pictures, frames and other replaced elements are not in the list: a picture between two
// words keeps them apart for a reader, and the generator never writes text tight against one.
var lineTags = map[string]bool{"a": true, "abbr": true, "acronym": true, "b": true, "bdi": true, "bdo": true, "big": true,
	"cite": true, "code": true, "data": true, "del": true, "dfn": true, "em": true, "font": true, "i": true,
	"ins": true, "kbd": true, "label": true, "mark": true, "q": true, "s": true, "samp": true, "small": true,
	"span": true, "strike": true, "strong": true, "sub": true, "sup": true, "time": true, "tt": true, "u": true,
	"var": true, "wbr": true, "nobr": true}

func isSpaceByte(c byte) bool { return c == ' ' || c == '\t' || c == '\n' || c == '\r' || c == '\f' }

// text hands the data of one text node of category cat to emit, word by word as a reader joins them.
func (p *projector) text(cat, data string, emit func(string)) {
	if data == "" {
		return
	}
	if p.pend == nil {
		p.pend = map[string]*pendingWord{}
	}
	if pw := p.pend[cat]; pw != nil {
		delete(p.pend, cat)
		if isSpaceByte(data[0]) {
			pw.emit(pw.s)
		} else {
			data = pw.s + data
		}
	}
	if !isSpaceByte(data[len(data)-1]) {
		i := len(data)
		for i > 0 && !isSpaceByte(data[i-1]) {
			i--
		}
		emit(data[:i])
		p.pend[cat] = &pendingWord{s: data[i:], emit: emit}
		return
	}
	emit(data)
}

// lineBreak: a box of its own or a line break ends every pending word.
func (p *projector) lineBreak() {
	for _, cat := range []string{"ph", "phhid", "hid", "vis"} {
		if pw := p.pend[cat]; pw != nil {
			delete(p.pend, cat)
			pw.emit(pw.s)
		}
	}
}

// appendWords appends the words of s to runs, extending the last run when the next
// word is the successor of its last word (same node, same chain/table attributes).
func (p *projector) decode(tok int) (int, int) {
	if tok != 0 && p.src != nil {
		if nk, ok := p.src.tok[tok]; ok {
			return nk[0], nk[1]
		}
	}
	return 0, 0
}

// words splits s into words and maps each to its token id (0: not a source token);
// raw words of exempt skip-class source text are left out (see Src.raw).
func (p *projector) words(s string) []int {
	fs := strings.Fields(s)
	out := make([]int, 0, len(fs))
	for _, f := range fs {
		if m := rxTokWord.FindStringSubmatch(f); m != nil {
			n, _ := strconv.Atoi(m[1])
			out = append(out, n)
		} else if id, ok := litWords[f]; ok && p.src != nil && p.src.hasTok(id) {
			out = append(out, id)
		} else if p.src != nil && p.src.raw[f] {
			continue
		} else if p.src != nil && p.src.glued[f] {
			// a word made of several source words that the SOURCE already shows as one (zq1<b>zq2</b>)
			ts := tokensOf(f)
			out = append(out, ts...)
			if p.jrec != nil {
				*p.jrec = append(*p.jrec, ts[:len(ts)-1]...)
			}
		} else {
			out = append(out, 0)
		}
	}
	return out
}

func (p *projector) appendWords(runs []Run, s string) []Run {
	for _, tok := range p.words(s) {
		n, k := p.decode(tok)
		if l := len(runs); l > 0 && n != 0 && runs[l-1].N == n && runs[l-1].B+1 == k {
			runs[l-1].B = k
			continue
		}
		runs = append(runs, Run{N: n, A: k, B: k})
	}
	return runs
}

func (p *projector) appendHWords(runs []HRun, s string, c int, t bool) []HRun {
	for _, tok := range p.words(s) {
		n, k := p.decode(tok)
		if l := len(runs); l > 0 && n != 0 && runs[l-1].N == n && runs[l-1].B+1 == k && runs[l-1].C == c && runs[l-1].T == t {
			runs[l-1].B = k
			continue
		}
		runs = append(runs, HRun{N: n, A: k, B: k, C: c, T: t})
	}
	return runs
}

func (p *projector) walk(n *html.Node, chain string, inPh, hid, inTbl bool) {
	switch n.Type {
	case html.CommentNode:
		if !inPh {
			p.obs.Cmt = p.appendWords(p.obs.Cmt, n.Data)
		}
		return
	case html.TextNode:
		c := p.chains.id(chain)
		switch {
		case inPh && hid:
			p.text("phhid", n.Data, func(s string) { p.obs.Ph = p.appendWords(p.obs.Ph, s) })
		case inPh:
			p.text("ph", n.Data, func(s string) {
				p.obs.Ph = p.appendWords(p.obs.Ph, s)
				p.obs.Phc = p.appendHWords(p.obs.Phc, s, c, inTbl)
				p.jrec = &p.obs.VisJ
				p.obs.Vis = p.appendWords(p.obs.Vis, s)
				p.jrec = nil
			})
		case hid:
			p.text("hid", n.Data, func(s string) { p.obs.Hid = p.appendWords(p.obs.Hid, s) })
		default:
			p.text("vis", n.Data, func(s string) {
				p.obs.Htm = p.appendHWords(p.obs.Htm, s, c, inTbl)
				p.obs.Vnp = p.appendWords(p.obs.Vnp, s)
				p.jrec = &p.obs.VisJ
				p.obs.Vis = p.appendWords(p.obs.Vis, s)
				p.jrec = nil
			})
		}
		return
	case html.ElementNode:
		if !lineTags[n.Data] {
			p.lineBreak()
			defer p.lineBreak()
		}
		if isPlaceholder(n) {
			inPh = true
		}
		if outHidden(n) {
			hid = true
		}
		if nestTags[n.Data] {
			chain += "/" + n.Data
		}
		if n.Data == "table" {
			inTbl = true
		}
	}
	for c := n.FirstChild; c != nil; c = c.NextSibling {
		p.walk(c, chain, inPh, hid, inTbl)
	}
}

// srcsetCandidates parses a srcset value as the HTML standard does: candidates are
// separated by commas, but a URL may contain commas itself - only a comma at the end of
// the URL token, or one that follows the descriptors, separates.
func srcsetCandidates(v string) []string {
	var out []string
	i, n := 0, len(v)
	isSpace := func(c byte) bool { return c == ' ' || c == '\t' || c == '\n' || c == '\r' || c == '\f' }
	for i < n {
		for i < n && (isSpace(v[i]) || v[i] == ',') {
			i++
		}
		if i >= n {
			break
		}
		start := i
		for i < n && !isSpace(v[i]) {
			i++
		}
		url := v[start:i]
		if strings.HasSuffix(url, ",") {
			url = strings.TrimRight(url, ",")
		} else {
			// descriptors up to the next comma
			for i < n && v[i] != ',' {
				i++
			}
		}
		if url != "" {
			out = append(out, url)
		}
	}
	return out
}

func (p *projector) census(root *html.Node) {
	c := map[string]int{"script": 0, "style": 0, "on": 0, "id": 0, "class": 0, "styleattr": 0, "data": 0,
		"ph_script": 0, "ph_on": 0, "elements": 0, "unknown": 0}
	var rec func(n *html.Node, inPh bool, depthInPh int)
	rec = func(n *html.Node, inPh bool, depthInPh int) {
		if n.Type == html.ElementNode && n != root {
			c["elements"]++
			wrapper := isPlaceholder(n) && !inPh
			if n.Data == "script" {
				c["script"]++
				if inPh {
					c["ph_script"]++
				}
			}
			if n.Data == "style" {
				c["style"]++
			}
			for _, a := range n.Attr {
				k := strings.ToLower(a.Key)
				switch {
				case strings.HasPrefix(k, "on"):
					c["on"]++
					if inPh {
						c["ph_on"]++
					}
				case k == "id":
					c["id"]++
				case k == "class":
					if !wrapper {
						c["class"]++
					}
				case k == "style":
					c["styleattr"]++
				case strings.HasPrefix(k, "data-"):
					if !(wrapper && (k == "data-type" || k == "data-id")) {
						c["data"]++
					}
				case strings.HasPrefix(k, "zq"):
					c["unknown"]++
				}
			}
			if wrapper {
				inPh = true
			}
		}
		for ch := n.FirstChild; ch != nil; ch = ch.NextSibling {
			rec(ch, inPh, depthInPh)
		}
	}
	rec(root, false, 0)
	p.obs.Census = c
}

func (p *projector) media(root *html.Node, src *Src) {
	// markers present in the output
	present := map[int]bool{}
	onlyTxt := true
	var rec func(n *html.Node, inPh, inTblCap bool)
	rec = func(n *html.Node, inPh, inTblCap bool) {
		if n.Type == html.ElementNode {
			switch n.Data {
			case "table", "figure", "img", "video", "picture", "iframe":
				onlyTxt = false
			}
			if isPlaceholder(n) {
				onlyTxt = false
				t, _ := attr(n, "data-type")
				id, _ := attr(n, "data-id")
				p.obs.Placeholders = append(p.obs.Placeholders, []string{t, id})
				if strings.HasPrefix(id, "m") {
					if v, err := strconv.Atoi(id[1:]); err == nil {
						present[v] = true
					}
				}
				inPh = true
			}
			if n.Data == "img" {
				p.obs.NImgOut++
			}
			if n.Data == "iframe" {
				if inPh {
					p.obs.FramesPh++
				} else if !inTblCap {
					p.obs.Frames++
				}
			}
			if n.Data == "table" || n.Data == "figcaption" {
				inTblCap = true
			}
			if !inPh {
				for _, a := range n.Attr {
					for _, m := range rxMarker.FindAllStringSubmatch(a.Val, -1) {
						s := m[1]
						if s == "" {
							s = m[2]
						}
						v, _ := strconv.Atoi(s)
						present[v] = true
					}
				}
				if n.Data == "img" || n.Data == "source" {
					if v, ok := attr(n, "src"); ok && v != "" {
						p.obs.DomImg = append(p.obs.DomImg, p.urls.id(v))
					}
					if v, ok := attr(n, "srcset"); ok {
						for _, u := range srcsetCandidates(v) {
							p.obs.DomImg = append(p.obs.DomImg, p.urls.id(u))
						}
					}
				}
			}
		}
		for c := n.FirstChild; c != nil; c = c.NextSibling {
			rec(c, inPh, inTblCap)
		}
	}
	rec(root, false, false)
	p.obs.OnlyTxt = onlyTxt
	if src != nil {
		// a table is identified by its first text node appearing under a <table>
		tblNode := map[int]bool{}
		for _, r := range p.obs.Htm {
			if r.T {
				tblNode[r.N] = true
			}
		}
		for _, m := range src.Media {
			if m.Kind == "tbl" {
				p.obs.MediaKept = append(p.obs.MediaKept, tblNode[m.Node])
			} else {
				p.obs.MediaKept = append(p.obs.MediaKept, present[m.Marker])
			}
		}
	}
}

func digestResult(res *distiller.Result) map[string]string {
	d := map[string]string{}
	d["title"] = dig(res.Title)
	d["text"] = dig(res.Text)
	d["html"] = dig(renderNode(res.Node))
	d["wc"] = strconv.Itoa(res.WordCount)
	d["images"] = dig(strings.Join(res.ContentImages, "\x00"))
	d["markup"] = dig(fmt.Sprintf("%#v", res.MarkupInfo))
	d["pagination"] = dig(res.PaginationInfo.PrevPage + "\x00" + res.PaginationInfo.NextPage)
	d["url"] = dig(res.URL)
	keys := make([]string, 0, len(d))
	for k := range d {
		if k != "pagination" && k != "url" {
			keys = append(keys, k)
		}
	}
	sort.Strings(keys)
	core := ""
	for _, k := range keys {
		core += k + "=" + d[k] + ";"
	}
	d["core"] = dig(core)
	return d
}

// project builds the observation of a call. src may be nil (families that do not
// use the token abstraction).
func project(res *distiller.Result, err error, src *Src, chains, urls *interner) *Obs {
	o := &Obs{Txt: []Run{}, Htm: []HRun{}, Vis: []Run{}, TxtJ: []int{}, VisJ: []int{}, OutTables: []OutTbl{}, Vnp: []Run{}, Ph: []Run{}, Phc: []HRun{}, Hid: []Run{}, Cmt: []Run{},
		MediaKept: []bool{}, CI: []int{}, DomImg: []int{}, Placeholders: [][]string{},
		Census: map[string]int{}, Dig: map[string]string{}}
	if err != nil || res == nil {
		o.Err = true
		return o
	}
	o.NodeOK = res.Node != nil && res.Node.Type == html.ElementNode && res.Node.Data == "div"
	if !o.NodeOK {
		return o
	}
	p := &projector{obs: o, src: src, chains: chains, urls: urls}
	p.jrec = &o.TxtJ
	o.Txt = p.appendWords(o.Txt, res.Text)
	p.jrec = nil
	o.Glued = len(o.TxtJ)
	o.TxtWC = countWords(res.Text)
	o.WC = res.WordCount
	o.NTitle = len(res.Title)
	p.walk(res.Node, "", false, false, false)
	p.lineBreak()
	p.outTables(res.Node)
	p.census(res.Node)
	p.media(res.Node, src)
	for _, u := range res.ContentImages {
		o.CI = append(o.CI, urls.id(u))
	}
	o.Dig = digestResult(res)
	return o
}

// countWords: the words of a text - its white-space separated pieces that hold at least one letter or digit
// (a dash or a colon standing alone is punctuation, not a word).
func countWords(s string) int {
	n := 0
	for _, f := range strings.Fields(s) {
		if strings.IndexFunc(f, func(r rune) bool { return unicode.IsLetter(r) || unicode.IsDigit(r) }) >= 0 {
			n++
		}
	}
	return n
}
