package main

func cmdRace(args []string) int { return 2 }
