package main

import (
	"encoding/json"
	"flag"
	"fmt"
	"go/ast"
	"go/parser"
	"go/token"
	"math/rand"
	nurl "net/url"
	"os"
	"path/filepath"
	"runtime"
	"sort"
	"strings"
	"sync"

	distiller "github.com/markusmobius/go-domdistiller"
	"golang.org/x/net/html"
)

// vdrive race: the concurrent driver of C12. Built with -race by the orchestrator.
// Goroutines call Apply concurrently - on distinct documents, on one shared tree,
// with a shared Options value, with all log flags - and every result digest is
// compared with the digest of the same call run alone beforehand. Data races are
// reported by Go's race detector (GORACE log_path is set by the orchestrator).

type raceJob struct {
	doc  int
	tree *html.Node
	opts *distiller.Options
	solo string
	key  string
	mode string
	run  int
	snap string
}

func digestOf(res *distiller.Result, err error) string {
	if err != nil || res == nil {
		return "err"
	}
	d := digestResult(res)
	return d["core"] + "/" + d["pagination"]
}

func cmdRace(args []string) int {
	fs := flag.NewFlagSet("race", flag.ExitOnError)
	seed := fs.Int64("seed", 1, "seed")
	rounds := fs.Int("rounds", 4, "rounds per mode")
	gor := fs.Int("goroutines", 16, "goroutines per round")
	out := fs.String("out", "", "trace file")
	fs.Parse(args)
	r := rand.New(rand.NewSource(*seed*7919 + 3))
	w, err := newTraceWriter(*out)
	if err != nil {
		fmt.Fprintln(realStderr, err)
		return 2
	}
	defer w.close()

	pageURL, _ := nurl.Parse("https://example.com/story/view?pg=2")
	mkOpts := func(i int, shared *distiller.Options) *distiller.Options {
		if shared != nil {
			return shared
		}
		o := &distiller.Options{OriginalURL: pageURL}
		if i%2 == 1 {
			o.PaginationAlgo = distiller.PageNumber
		}
		if i%5 == 4 {
			o.LogFlags = logFlags(15)
		}
		return o
	}
	pages := map[int]string{}
	pageOf := func(d int) string {
		if p, ok := pages[d]; ok {
			return p
		}
		g := newDocGen(*seed, d)
		p := richDoc(d, g)
		pages[d] = p
		return p
	}
	parse := func(d int) *html.Node {
		n, _ := html.Parse(strings.NewReader(pageOf(d)))
		return n
	}
	soloCache := map[string]string{}
	solo := func(d int, o *distiller.Options) string {
		algo, logf := 0, 0
		if o != nil {
			algo, logf = int(o.PaginationAlgo), int(o.LogFlags)
		}
		k := fmt.Sprintf("%d|%d|%d", d, algo, logf)
		if v, ok := soloCache[k]; ok {
			return v
		}
		res, err := distiller.Apply(parse(d), o)
		v := digestOf(res, err)
		soloCache[k] = v
		return v
	}

	run := 0
	total, mismatches := 0, 0
	modes := []string{"distinct", "sharedtree", "sharedopts", "alllogs", "sharedall"}
	for _, procs := range []int{2, runtime.NumCPU()} {
		runtime.GOMAXPROCS(procs)
		for _, mode := range modes {
			for round := 0; round < *rounds; round++ {
				var jobs []*raceJob
				var sharedTree *html.Node
				var sharedOpts *distiller.Options
				sharedDoc := r.Intn(nRichDocs * 3)
				if mode == "sharedtree" || mode == "sharedall" {
					sharedTree = parse(sharedDoc)
				}
				if mode == "sharedopts" || mode == "sharedall" {
					sharedOpts = &distiller.Options{OriginalURL: pageURL, LogFlags: logFlags(r.Intn(16))}
				}
				for i := 0; i < *gor; i++ {
					run++
					j := &raceJob{run: run, mode: mode}
					if sharedTree != nil {
						j.doc, j.tree = sharedDoc, sharedTree
					} else {
						j.doc = r.Intn(nRichDocs * 3)
						if r.Intn(3) == 0 {
							// a third of the calls work on the templates with pagers: both finders keep per-call state
							// (number groups, candidate maps, score lists) that must not be shared
							pagers := []int{1, 8, 9, 11, 15, 16, 18, 19, 23, 24, 25}
							j.doc = pagers[r.Intn(len(pagers))] + nRichDocs*r.Intn(3)
						}
						j.tree = parse(j.doc)
					}
					j.opts = mkOpts(i, sharedOpts)
					if mode == "alllogs" {
						j.opts = &distiller.Options{OriginalURL: pageURL, LogFlags: logFlags(15)}
					}
					j.solo = solo(j.doc, j.opts)
					j.snap = snapshotTree(j.tree)
					jobs = append(jobs, j)
				}
				results := make([]string, len(jobs))
				var wg sync.WaitGroup
				start := make(chan struct{})
				for i, j := range jobs {
					wg.Add(1)
					go func(i int, j *raceJob) {
						defer wg.Done()
						<-start
						defer func() {
							if rec := recover(); rec != nil {
								results[i] = fmt.Sprint("panic: ", rec)
							}
						}()
						res, err := distiller.Apply(j.tree, j.opts)
						results[i] = digestOf(res, err)
					}(i, j)
				}
				close(start)
				wg.Wait()
				for i, j := range jobs {
					same := results[i] == j.solo
					treesame := snapshotTree(j.tree) == j.snap
					total++
					if !same || !treesame {
						mismatches++
					}
					w.emit(Event{"ev": "ConcCall", "run": j.run, "mode": mode, "procs": procs, "doc": j.doc,
						"same": same, "treesame": treesame, "panicked": strings.HasPrefix(results[i], "panic")})
				}
			}
		}
	}
	b, _ := json.Marshal(map[string]int{"calls": total, "mismatches": mismatches})
	fmt.Println(string(b))
	return 0
}

// ---- static scan: writes to package-level variables outside init ------------

type globalWrite struct {
	Pos  string `json:"pos"`
	Var  string `json:"var"`
	Kind string `json:"kind"`
}

// cmdScan lists every statement that writes (assigns, increments, appends into,
// deletes from, sends on ...) a package-level variable of the repository outside an
// init function and outside the variable's own declaration. It is the assumption
// check behind the model's "package-level state is constant after initialisation".
func cmdScan(args []string) int {
	fs := flag.NewFlagSet("scan", flag.ExitOnError)
	repo := fs.String("repo", "/repo", "repository root")
	fs.Parse(args)
	var writes []globalWrite
	fset := token.NewFileSet()
	filepath.Walk(*repo, func(path string, info os.FileInfo, err error) error {
		if err != nil || !info.IsDir() {
			return nil
		}
		base := filepath.Base(path)
		if base == ".git" || base == "example" || base == "scripts" || base == "testutil" || base == "vtrace" {
			return filepath.SkipDir
		}
		pkgs, err := parser.ParseDir(fset, path, func(fi os.FileInfo) bool {
			return !strings.HasSuffix(fi.Name(), "_test.go")
		}, 0)
		if err != nil {
			return nil
		}
		for _, pkg := range pkgs {
			// package-level variable names
			globals := map[string]bool{}
			for _, f := range pkg.Files {
				for _, d := range f.Decls {
					if gd, ok := d.(*ast.GenDecl); ok && gd.Tok == token.VAR {
						for _, sp := range gd.Specs {
							for _, n := range sp.(*ast.ValueSpec).Names {
								globals[n.Name] = true
							}
						}
					}
				}
			}
			for _, f := range pkg.Files {
				for _, d := range f.Decls {
					fd, ok := d.(*ast.FuncDecl)
					if !ok || fd.Body == nil || (fd.Name.Name == "init" && fd.Recv == nil) {
						continue
					}
					// locals shadowing globals: collect names declared in the function
					shadow := map[string]bool{}
					if fd.Type.Params != nil {
						for _, p := range fd.Type.Params.List {
							for _, n := range p.Names {
								shadow[n.Name] = true
							}
						}
					}
					if fd.Recv != nil {
						for _, p := range fd.Recv.List {
							for _, n := range p.Names {
								shadow[n.Name] = true
							}
						}
					}
					ast.Inspect(fd.Body, func(n ast.Node) bool {
						switch st := n.(type) {
						case *ast.AssignStmt:
							if st.Tok == token.DEFINE {
								for _, l := range st.Lhs {
									if id, ok := l.(*ast.Ident); ok {
										shadow[id.Name] = true
									}
								}
							}
						case *ast.ValueSpec:
							for _, id := range st.Names {
								shadow[id.Name] = true
							}
						case *ast.RangeStmt:
							if st.Tok == token.DEFINE {
								for _, l := range []ast.Expr{st.Key, st.Value} {
									if id, ok := l.(*ast.Ident); ok {
										shadow[id.Name] = true
									}
								}
							}
						}
						return true
					})
					rootIdent := func(e ast.Expr) *ast.Ident {
						for {
							switch x := e.(type) {
							case *ast.Ident:
								return x
							case *ast.IndexExpr:
								e = x.X
							case *ast.SelectorExpr:
								e = x.X
							case *ast.StarExpr:
								e = x.X
							case *ast.ParenExpr:
								e = x.X
							default:
								return nil
							}
						}
					}
					note := func(e ast.Expr, kind string) {
						if id := rootIdent(e); id != nil && globals[id.Name] && !shadow[id.Name] {
							writes = append(writes, globalWrite{Pos: strings.TrimPrefix(fset.Position(e.Pos()).String(), *repo+"/"), Var: id.Name, Kind: kind})
						}
					}
					ast.Inspect(fd.Body, func(n ast.Node) bool {
						switch st := n.(type) {
						case *ast.AssignStmt:
							if st.Tok != token.DEFINE {
								for _, l := range st.Lhs {
									note(l, "assign")
								}
							}
						case *ast.IncDecStmt:
							note(st.X, "incdec")
						case *ast.SendStmt:
							note(st.Chan, "send")
						case *ast.CallExpr:
							if id, ok := st.Fun.(*ast.Ident); ok && id.Name == "delete" && len(st.Args) > 0 {
								note(st.Args[0], "delete")
							}
						}
						return true
					})
				}
			}
		}
		return nil
	})
	sort.Slice(writes, func(i, j int) bool { return writes[i].Pos < writes[j].Pos })
	if writes == nil {
		writes = []globalWrite{}
	}
	b, _ := json.Marshal(map[string]interface{}{"writes": writes})
	fmt.Println(string(b))
	return 0
}
