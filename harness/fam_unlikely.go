package main

import (
	"fmt"
	"strings"
)

// The "unlikely" family (C20): a metamorphic triple per case - the page P with
// marked subtrees, D = P with those subtrees deleted, R = P with the markers renamed
// to neutral values - distilled one after the other and recorded as one group
// (spec/Unlikely.tla, spec/trace/CallsTrace.tla: variant P / D / R).

func init() { register("C20", runUnlikely) }

var unlikelyWords = []string{"sidebar", "footer", "menu", "banner", "related", "sponsor", "popup", "skyscraper",
	"shoutbox", "rss", "disqus", "extra", "combx", "breadcrumbs", "ad-break", "agegate", "pagination", "pager",
	"supplemental", "legends", "gdpr", "cover-wrap", "replies", "community", "header"}
var unlikelyRoleVals = []string{"menu", "menubar", "complementary", "navigation", "alert", "alertdialog", "dialog"}

func chunks(g *docGen, total int) string {
	var sb strings.Builder
	for total > 0 {
		n := 100
		if total < 140 {
			n = total
		}
		// a paragraph of n words; now and then one word is followed directly by an inline element (1<sup>st</sup>):
		// two text nodes but one word for every reader - and two words for the word counter, which is the recorded
		// finding C09_WordCountMatchesText / word-continues-across-inline-elements
		if n >= 10 && g.rng.Intn(3) == 0 {
			tag := pickS(g.rng, "sup", "sub", "b", "span")
			sb.WriteString("<p>" + g.words(n/2) + "<" + tag + ">" + g.words(1) + "</" + tag + "> " + g.words(n-n/2-1) + "</p>")
		} else {
			sb.WriteString(g.para(n))
		}
		total -= n
	}
	return sb.String()
}

func runUnlikely(c Case, e *env) []Event {
	g := newDocGen(e.seed, c.ID)
	r := g.rng
	main := c.num("main", 300)
	type mk struct {
		words      int
		where, how string
		body       string
		attrP      string
		attrR      string
		tag        string
		inl        string // words used when the marker sits on an inline element
	}
	var marks []mk
	for _, x := range c.list("marks") {
		m, ok := x.(map[string]interface{})
		if !ok {
			continue
		}
		k := mk{where: fmt.Sprint(m["where"]), how: fmt.Sprint(m["how"])}
		if w, ok := m["words"].(float64); ok {
			k.words = int(w)
		}
		// mostly containers; sometimes the marked element is itself one an embed extractor recognises
		k.tag = pickS(r, "div", "section", "div", "ul", "div", "section", "img")
		word := unlikelyWords[r.Intn(len(unlikelyWords))]
		switch k.how {
		case "id":
			v := pickS(r, word, word+"-box", "x-"+word, strings.ToUpper(word))
			k.attrP = ` id="` + v + `"`
			k.attrR = ` id="zqplain` + fmt.Sprint(len(marks)) + `"`
		case "role":
			// the role alone marks the subtree; class/id may say anything else (also words that
			// would exempt a class/id marker)
			extra := pickS(r, "", "", ` class="column-right"`, ` id="main-nav"`, ` class="article-tools content"`, ` class="zqbox"`, ` id="shadow-box"`)
			k.attrP = ` role="` + unlikelyRoleVals[r.Intn(len(unlikelyRoleVals))] + `"` + extra
			k.attrR = ` role="note"` + extra
		default:
			v := pickS(r, word, word+" wide", "box "+word, word+"-wrap")
			k.attrP = ` class="` + v + `"`
			k.attrR = ` class="zqplain"`
		}
		marks = append(marks, k)
	}
	// pieces (generated once, shared by the three variants)
	half1 := chunks(g, main-main/2)
	half2 := ""
	if main/2 > 0 {
		half2 = chunks(g, main/2)
	}
	// word split must keep every paragraph a content paragraph: merge tiny halves
	if main/2 < 40 {
		half1 = chunks(g, main)
		half2 = ""
	}
	for i := range marks {
		inner := chunks(g, marks[i].words)
		if r.Intn(3) == 0 {
			// the marked subtree is a cluster of links (typical chrome) instead of article-like text
			inner = g.linkCluster(3 + marks[i].words/40)
		}
		if r.Intn(5) == 0 {
			// a marked wrapper that holds nothing but media: no words are at stake, only the elements
			inner = pickS(r, fmt.Sprintf(`<img src="/i/zqmk%d.png" alt="">`, g.marker()),
				fmt.Sprintf(`<video controls src="/v/zqmk%d.mp4"></video>`, g.marker()),
				fmt.Sprintf(`<img src="/i/zqmk%d.png" alt=""><img src="/i/zqmk%d.png" alt="">`, g.marker(), g.marker()))
		}
		if marks[i].tag == "ul" {
			inner = "<li>" + inner + "</li>"
		}
		if marks[i].tag == "img" {
			inner = fmt.Sprintf(` src="/i/zqmk%d.png" alt=""`, g.marker())
		}
		marks[i].body = inner
		marks[i].inl = g.words(4)
	}
	// two bare text runs (no paragraph around them) for the inline / bare placements
	lead1, lead2 := g.words(45), g.words(45)
	// now and then the page opens with a data table (marked subtrees after it are marked subtrees all the same)
	topTable := ""
	if r.Intn(4) == 0 {
		topTable = "<table><tr><th>" + g.words(1) + "</th><th>" + g.words(1) + "</th></tr><tr><td>" + g.words(2) + "</td><td>" + g.words(2) +
			"</td></tr><tr><td>" + g.words(2) + "</td><td>" + g.words(2) + "</td></tr></table>"
	}
	// decoys: (a) a link (never an unlikely candidate) that carries exactly the class / id of one of the marked
	// subtrees, before and after the story; (b) a block whose class is an unlikely word while its id holds one of
	// the words that vouch for content (or the other way round): not marked, so it is part of every variant - with
	// neutral attributes in D and R, which is the same page to every reader
	linkBefore, linkAfter := "", ""
	for _, m := range marks {
		if (m.how == "class" || m.how == "id") && m.tag != "img" && r.Intn(3) == 0 {
			l := `<p>` + g.words(12) + ` <a href="/zqd/more.html"` + m.attrP + `>` + g.words(2) + `</a> ` + g.words(12) + `</p>`
			if r.Intn(2) == 0 {
				linkBefore = l
			} else {
				linkAfter = l
			}
			break
		}
	}
	vouchedP, vouchedN := "", ""
	if r.Intn(3) == 0 {
		u := unlikelyWords[r.Intn(len(unlikelyWords))]
		v := pickS(r, "article-part-two", "main-col", "content-2", "body-text", "column-b", "shadow-box")
		inner := chunks(g, 30)
		attrs := ` class="` + u + `" id="` + v + `"`
		if r.Intn(2) == 0 {
			attrs = ` id="` + u + `" class="` + v + `"`
		}
		vouchedP = `<div` + attrs + `>` + inner + `</div>`
		vouchedN = `<div class="zqplain" id="zqvouched">` + inner + `</div>`
	}
	// (c) a block with an unlikely class deep inside a layout table: elements below a table are never pruned, at any depth
	tabledP, tabledN := "", ""
	if r.Intn(3) == 0 {
		u := unlikelyWords[r.Intn(len(unlikelyWords))]
		inner := chunks(g, 30)
		cell := func(attrs string) string {
			return `<table><tr><td><div><div><div` + attrs + `>` + inner + `</div></div></div></td><td>` + g.words(0) + `</td></tr></table>`
		}
		tabledP = cell(` class="` + u + `"`)
		tabledN = cell(` class="zqplain"`)
	}
	blockOf := func(m mk, variant string) string {
		body := m.body
		if m.tag == "span" {
			body = m.inl
		}
		if m.tag == "img" {
			switch variant {
			case "D":
				return ""
			case "R":
				return "<img" + m.attrR + m.body + ">"
			}
			return "<img" + m.attrP + m.body + ">"
		}
		switch variant {
		case "D":
			return ""
		case "R":
			return "<" + m.tag + m.attrR + ">" + body + "</" + m.tag + ">"
		}
		return "<" + m.tag + m.attrP + ">" + body + "</" + m.tag + ">"
	}
	assemble := func(variant string) string {
		block := func(m mk) string { return blockOf(m, variant) }
		var before, after, nested, sibling, between, inline, bare strings.Builder
		for _, m := range marks {
			switch m.where {
			case "inline":
				// a marked inline element in the middle of running text (span, small word count)
				im := m
				im.tag = "span"
				inline.WriteString(" " + blockOf(im, variant) + " ")
			case "bare":
				// a marked block between two bare text runs of one parent
				bare.WriteString(blockOf(m, variant))
			case "before":
				before.WriteString(block(m))
			case "after":
				after.WriteString(block(m))
			case "nested":
				nested.WriteString(block(m))
			case "sibling":
				sibling.WriteString(block(m))
			default:
				between.WriteString(block(m))
			}
		}
		run1, run2 := "", ""
		for _, m := range marks {
			if m.where == "inline" || m.where == "bare" {
				run1, run2 = lead1, lead2
			}
		}
		// white space around the marked element: deleting it must not glue the neighbouring words
		vouched := vouchedN + tabledN
		if variant == "P" {
			vouched = vouchedP + tabledP
		}
		story := `<div>` + run1 + " " + inline.String() + bare.String() + " " + run2 + half1 + nested.String() + `</div>` + vouched + between.String()
		if half2 != "" {
			story += `<div>` + half2 + `</div>`
		}
		return "<!DOCTYPE html><html><head></head><body>" + topTable + linkBefore + before.String() + "<div>" + story + sibling.String() + "</div>" + after.String() + linkAfter + "</body></html>"
	}
	var evs []Event
	for i, v := range []string{"P", "D", "R"} {
		sub := Case{ID: c.ID, P: map[string]interface{}{
			"page": assemble(v), "variant": v, "runoff": i, "root": "document",
			"hist": []interface{}{map[string]interface{}{"entry": "apply", "nil": false, "log": 0, "url": 0.0, "skip": true, "algo": "prevnext"}},
		}}
		evs = append(evs, runCalls(sub, e)...)
	}
	// sensitivity counters
	for _, ev := range evs {
		if ev["ev"] == "Pass" && fmt.Sprint(ev["n"]) == "2" {
			count("second_pass_runs")
		}
	}
	count("triples")
	if c.str("expect", "") == "D" {
		count("expect_pruned")
	} else {
		count("expect_fallback")
	}
	return evs
}
