package main

import (
	"fmt"
	"strings"

	"github.com/markusmobius/go-domdistiller/vtrace"
	"golang.org/x/net/html"
)

// The "convert" family: fidelity binding of spec/Convert.tla. The page is abstracted
// from the PARSED tree into the pre-order document of spec/Dom.tla (abstraction
// function below), the real conversion is recorded builder call by builder call
// through the verif hooks, and spec/trace/ConvertTrace.tla replays the model's own run
// on the abstract document next to it. Differences are DRIFT (the model no longer
// mirrors the code), never a violation; two mechanism-level predicates of C02 are
// evaluated on the recorded calls themselves.

func init() { register("CONV", runConvert) }

type absNode struct {
	K string `json:"k"`
	D int    `json:"d"`
}

type abstraction struct {
	nodes     []absNode
	tokNode   map[int]int // first token of a word-bearing text node -> abstract index
	supported bool
	why       string
}

var inlineTags = map[string]bool{"b": true, "i": true, "em": true, "strong": true, "span": true, "u": true, "code": true}

// block-level containers that behave alike in the converter (also when empty, since 18a8bea)
var blockDivTags = map[string]bool{"div": true, "section": true, "article": true, "main": true, "address": true, "header": true}

func (a *abstraction) add(k string, d int) int {
	a.nodes = append(a.nodes, absNode{K: k, D: d})
	return len(a.nodes)
}

func (a *abstraction) unsupported(why string) {
	if a.supported {
		a.supported = false
		a.why = why
	}
}

func hasImage(n *html.Node) bool {
	found := false
	var rec func(x *html.Node)
	rec = func(x *html.Node) {
		if x.Type == html.ElementNode && (x.Data == "img" || x.Data == "picture") {
			found = true
		}
		for c := x.FirstChild; c != nil && !found; c = c.NextSibling {
			rec(c)
		}
	}
	rec(n)
	return found
}

// walk abstracts node n at depth d. Atomic kinds (hidden, skipped, media, data
// tables) get no children: the model never looks below them.
func (a *abstraction) walk(n *html.Node, d int) {
	switch n.Type {
	case html.TextNode:
		if n.Data == "" {
			return
		}
		toks := tokensOf(n.Data)
		if len(toks) == 0 {
			if strings.TrimSpace(n.Data) != "" {
				a.unsupported("text without tokens")
			}
			a.add("W", d)
			return
		}
		idx := a.add("T", d)
		a.tokNode[toks[0]] = idx
		return
	case html.CommentNode:
		a.add("CMT", d)
		return
	case html.ElementNode:
	default:
		return
	}
	tag := n.Data
	if refHidden(n) {
		a.add("HID", d)
		return
	}
	cls, _ := attr(n, "class")
	if comp, _ := attr(n, "data-component"); cls == "sharing" || cls == "socialArea" || comp == "share" {
		a.add("SHR", d)
		return
	}
	kids := func(k string) {
		i := a.add(k, d)
		_ = i
		for c := n.FirstChild; c != nil; c = c.NextSibling {
			a.walk(c, d+1)
		}
	}
	switch {
	case tag == "head" || tag == "script" || tag == "style" || tag == "noscript" || tag == "svg" || tag == "link":
		a.add("SKS", d)
	case tag == "iframe":
		src, _ := attr(n, "src")
		if strings.Contains(src, "youtube") || strings.Contains(src, "vimeo") || strings.Contains(src, "twitter.com") {
			a.add("EMB", d)
		} else {
			a.add("SKS", d)
		}
	case tag == "form" || tag == "button" || tag == "select" || tag == "textarea" || tag == "object" || tag == "applet" || tag == "input" || tag == "option" || tag == "embed":
		a.add("SKF", d)
	case tag == "img" || tag == "picture":
		a.add("IMG", d)
	case tag == "span" && strings.Contains(cls, "lazy-image-placeholder"):
		a.add("IMG", d)
	case tag == "video":
		a.add("VID", d)
	case tag == "figure":
		if hasImage(n) {
			a.add("FIG", d)
		} else {
			a.unsupported("figure without image")
			kids("DIV")
		}
	case tag == "blockquote" && strings.Contains(cls, "twitter-tweet"):
		a.add("TW", d)
	case tag == "table":
		if tableLooksData(n) {
			a.add("DT", d)
		} else {
			a.unsupported("layout table")
			a.add("DT", d)
		}
	case tag == "br":
		a.add("BR", d)
	case tag == "a":
		href, _ := attr(n, "href")
		if strings.HasPrefix(href, "javascript:") {
			kids("AJ")
		} else {
			kids("A")
		}
	case tag == "font":
		kids("FONT")
	case inlineTags[tag]:
		if cls != "" || len(n.Attr) > 0 {
			// attribute noise could trigger class/id driven decisions the model does not have
			if tag == "span" && cls == "mw-editsection" {
				a.unsupported("edit section")
			}
		}
		kids("INL")
	case tag == "p":
		kids("P")
	case tag == "h1" || tag == "h2" || tag == "h3" || tag == "h4" || tag == "h5" || tag == "h6":
		kids("H")
	case tag == "ul":
		kids("UL")
	case tag == "ol":
		kids("OL")
	case tag == "li":
		kids("LI")
	case tag == "blockquote":
		kids("BQ")
	case tag == "pre":
		kids("PRE")
	case blockDivTags[tag]:
		kids("DIV")
	case tag == "html" || tag == "body":
		kids("BODY")
	case tag == "title":
		a.add("SKS", d)
	default:
		a.unsupported("tag " + tag)
		kids("DIV")
	}
}

func abstractTree(root *html.Node) *abstraction {
	a := &abstraction{tokNode: map[int]int{}, supported: true}
	a.walk(root, 1)
	return a
}

func findElement(n *html.Node, tag string) *html.Node {
	if n.Type == html.ElementNode && n.Data == tag {
		return n
	}
	for c := n.FirstChild; c != nil; c = c.NextSibling {
		if r := findElement(c, tag); r != nil {
			return r
		}
	}
	return nil
}

var tagKind = map[string]string{"p": "P", "ul": "UL", "ol": "OL", "li": "LI", "blockquote": "BQ", "pre": "PRE", "a": "A",
	"font": "FONT", "h1": "H", "h2": "H", "h3": "H", "h4": "H", "h5": "H", "h6": "H", "div": "DIV", "section": "DIV", "article": "DIV", "main": "DIV", "address": "DIV", "header": "DIV",
	"html": "BODY", "body": "BODY"}

// builderEvents turns the hook events of one conversion pass into the records of Convert!Ev.
func builderEvents(hooks []vtrace.Event, a *abstraction, jsAnchors map[string]bool) [][]map[string]interface{} {
	var passes [][]map[string]interface{}
	cur := []map[string]interface{}{}
	ev := func(e, k string, n int) { cur = append(cur, map[string]interface{}{"e": e, "k": k, "n": n}) }
	for _, h := range hooks {
		kv := hookKV(h)
		switch h.Name {
		case "AddTextNode":
			n := 0
			if t := tokensOf(fmt.Sprint(kv["text"])); len(t) > 0 {
				n = a.tokNode[t[0]]
			}
			ev("text", "", n)
		case "AddLineBreak":
			ev("br", "", 0)
		case "StartNode":
			tag := fmt.Sprint(kv["tag"])
			k, ok := tagKind[tag]
			if !ok {
				if inlineTags[tag] {
					k = "INL"
				} else {
					k = "?" + tag
				}
			}
			ev("start", k, 0)
		case "EndNode":
			ev("end", "", 0)
		case "SkipNode":
			ev("skip", "", 0)
		case "AddTag":
			ev("tag", tagKind[fmt.Sprint(kv["name"])], 0)
		case "AddEmbed":
			ev("media", map[string]string{"image": "IMG", "figure": "FIG", "video": "VID", "embed": "EMB"}[fmt.Sprint(kv["kind"])], 0)
		case "AddDataTable":
			ev("table", "DT", 0)
		case "FlushText":
			n := 0
			if t := tokensOf(fmt.Sprint(kv["text"])); len(t) > 0 {
				n = a.tokNode[t[0]]
			}
			ev("flush", "", n)
		case "Pass":
			passes = append(passes, cur)
			cur = []map[string]interface{}{}
		}
	}
	return passes
}

func runConvert(c Case, e *env) []Event {
	g := newDocGen(e.seed, c.ID)
	g.canonical = false
	place := docPlaces[(c.ID+int(e.seed))%len(docPlaces)]
	forest := buildForest(c.Nodes)
	page := g.page(forest, place)
	doc, err := html.Parse(strings.NewReader(page))
	if err != nil {
		return []Event{{"ev": "Skip", "run": c.ID, "why": "unparseable"}}
	}
	root := findElement(doc, "html")
	a := abstractTree(root)
	if !a.supported {
		count("unsupported_" + strings.Fields(a.why)[0])
		return []Event{{"ev": "Skip", "run": c.ID, "why": a.why}}
	}
	out := applyTree(doc, OptSpec{Skip: true})
	call := Event{"ev": "Call", "run": c.ID, "prop": e.prop, "adoc": a.nodes}
	if showInputs {
		call["html"] = page
	}
	if ev, bad := outcomeEvent(c.ID, out); bad {
		return []Event{call, ev}
	}
	evs := []Event{call}
	for i, p := range builderEvents(out.hooks, a, nil) {
		evs = append(evs, Event{"ev": "Walk", "run": c.ID, "pass": i + 1, "skip": i == 0, "calls": p})
	}
	count("walks")
	return append(evs, Event{"ev": "Return", "run": c.ID, "obs": map[string]interface{}{"err": out.err != nil}})
}

// ---- the "render" family: fidelity binding of spec/Render.tla -----------------------
// The final element list of the real run (kinds and content flags after the three document
// filters, from the DocFilter hook) and the distilled HTML (Result.Node) as a sequence of
// open / close / words-of-node / media items go to spec/trace/RenderTrace.tla, which renders
// the model's element list with the same flags and compares.

func init() { register("REND", runRender) }

var mediaKindOfTag = map[string]string{"img": "IMG", "picture": "IMG", "figure": "FIG", "video": "VID", "table": "DT"}

func renderItems(root *html.Node, a *abstraction) []map[string]interface{} {
	items := []map[string]interface{}{}
	add := func(t, k string, n int) { items = append(items, map[string]interface{}{"t": t, "k": k, "n": n}) }
	seen := map[int]bool{}
	var walk func(n *html.Node)
	walk = func(n *html.Node) {
		switch n.Type {
		case html.TextNode:
			for _, tok := range tokensOf(n.Data) {
				if idx, ok := a.tokNode[tok]; ok && !seen[idx] {
					seen[idx] = true
					add("w", "", idx)
				}
			}
			return
		case html.ElementNode:
		default:
			return
		}
		tag := n.Data
		if k, ok := mediaKindOfTag[tag]; ok {
			add("m", k, 0)
			return
		}
		if cls, _ := attr(n, "class"); tag == "div" && strings.Contains(cls, "embed-placeholder") {
			if t, _ := attr(n, "data-type"); t == "twitter" {
				add("m", "TW", 0)
			} else {
				add("m", "EMB", 0)
			}
			return
		}
		if tag == "br" {
			return
		}
		k, ok := tagKind[tag]
		if !ok {
			if inlineTags[tag] {
				k = "INL"
			} else {
				k = "?" + tag
			}
		}
		add("open", k, 0)
		for c := n.FirstChild; c != nil; c = c.NextSibling {
			walk(c)
		}
		add("close", k, 0)
	}
	for c := root.FirstChild; c != nil; c = c.NextSibling {
		walk(c)
	}
	return items
}

func runRender(c Case, e *env) []Event {
	g := newDocGen(e.seed, c.ID)
	g.canonical = false
	g.noTitle = true // no <title>: no block is dropped as a repetition of the title
	place := docPlaces[(c.ID+int(e.seed))%len(docPlaces)]
	forest := buildForest(c.Nodes)
	page := g.page(forest, place)
	doc, err := html.Parse(strings.NewReader(page))
	if err != nil {
		return []Event{{"ev": "Skip", "run": c.ID, "why": "unparseable"}}
	}
	root := findElement(doc, "html")
	a := abstractTree(root)
	if !a.supported {
		count("unsupported_" + strings.Fields(a.why)[0])
		return []Event{{"ev": "Skip", "run": c.ID, "why": a.why}}
	}
	out := applyTree(doc, OptSpec{Skip: true})
	call := Event{"ev": "Call", "run": c.ID, "prop": e.prop, "adoc": a.nodes}
	if showInputs {
		call["html"] = page
	}
	if ev, bad := outcomeEvent(c.ID, out); bad {
		return []Event{call, ev}
	}
	if out.err != nil || out.res == nil || out.res.Node == nil {
		return []Event{call, {"ev": "Return", "run": c.ID, "obs": map[string]interface{}{"err": true}}}
	}
	// the last pass and the element list after the last filter
	lastPass := 0
	var final []map[string]interface{}
	for _, h := range out.hooks {
		kv := hookKV(h)
		switch h.Name {
		case "Pass":
			if n, ok := kv["n"].(int); ok {
				lastPass = n
			}
		case "DocFilter":
			if fmt.Sprint(kv["name"]) == "NestedElementRetainer" {
				final = elemList(kv["elems"])
			}
		}
	}
	if lastPass == 0 || final == nil {
		return []Event{call, {"ev": "Skip", "run": c.ID, "why": "no filter events"}}
	}
	flags := make([]bool, len(final))
	kinds := make([]string, len(final))
	for i, el := range final {
		flags[i] = el["c"] == true
		kinds[i] = fmt.Sprint(el["k"])
	}
	count("renders")
	rend := Event{"ev": "Render", "run": c.ID, "skip": lastPass == 1, "flags": flags, "kinds": kinds, "items": renderItems(out.res.Node, a)}
	return []Event{call, rend, {"ev": "Return", "run": c.ID, "obs": map[string]interface{}{"err": false}}}
}
