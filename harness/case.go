package main

import (
	"bufio"
	"encoding/json"
	"fmt"
	"os"
)

// ANode is one node of an abstract document (pre-order sequence, see spec/Dom.tla).
type ANode struct {
	K string `json:"k"`
	D int    `json:"d"`
}

// Case is one abstract case as dumped by TLC (spec/*Gen.tla). Only the fields of
// the family at hand are set. The driver never judges; it concretises the case,
// runs the real code and projects the result.
type Case struct {
	ID    int                    `json:"id"`
	Nodes []ANode                `json:"nodes,omitempty"`
	P     map[string]interface{} `json:"p,omitempty"`
}

func (c *Case) str(key, def string) string {
	if v, ok := c.P[key]; ok {
		if s, ok := v.(string); ok {
			return s
		}
	}
	return def
}

func (c *Case) num(key string, def int) int {
	if v, ok := c.P[key]; ok {
		switch t := v.(type) {
		case float64:
			return int(t)
		case int:
			return t
		}
	}
	return def
}

func (c *Case) boolean(key string, def bool) bool {
	if v, ok := c.P[key]; ok {
		if b, ok := v.(bool); ok {
			return b
		}
	}
	return def
}

func (c *Case) list(key string) []interface{} {
	if v, ok := c.P[key]; ok {
		if l, ok := v.([]interface{}); ok {
			return l
		}
	}
	return nil
}

func readCases(path string) ([]Case, error) {
	f, err := os.Open(path)
	if err != nil {
		return nil, err
	}
	defer f.Close()
	var out []Case
	sc := bufio.NewScanner(f)
	sc.Buffer(make([]byte, 1<<20), 64<<20)
	n := 0
	for sc.Scan() {
		line := sc.Bytes()
		if len(line) == 0 {
			continue
		}
		n++
		var c Case
		if err := json.Unmarshal(line, &c); err != nil {
			return nil, fmt.Errorf("case line %d: %v", n, err)
		}
		if c.ID == 0 {
			c.ID = n
		}
		out = append(out, c)
	}
	return out, sc.Err()
}

// Event is one line of an ndjson trace. Field names are what the trace specs read.
type Event map[string]interface{}

type traceWriter struct {
	f *os.File
	w *bufio.Writer
}

func newTraceWriter(path string) (*traceWriter, error) {
	f, err := os.Create(path)
	if err != nil {
		return nil, err
	}
	return &traceWriter{f: f, w: bufio.NewWriterSize(f, 1<<20)}, nil
}

func (t *traceWriter) emit(ev Event) {
	b, err := json.Marshal(ev)
	if err != nil {
		panic(err)
	}
	t.w.Write(b)
	t.w.WriteByte('\n')
}

func (t *traceWriter) close() {
	t.w.Flush()
	t.f.Close()
}
