package main

import (
	"fmt"
	"os"
	"strings"

	"github.com/go-shiori/dom"
	distiller "github.com/markusmobius/go-domdistiller"
)

func main() {
	b, _ := os.ReadFile(os.Args[1])
	res, err := distiller.ApplyForReader(strings.NewReader(string(b)), nil)
	if err != nil {
		fmt.Println("ERR", err)
		return
	}
	fmt.Println("TEXT:", res.Text)
	fmt.Println("HTML:", dom.OuterHTML(res.Node))
}
