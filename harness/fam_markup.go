package main

import (
	"encoding/json"
	"fmt"
	"regexp"
	"strconv"
	"strings"

	"golang.org/x/net/html"
)

// The "markup" family (C14): a parameter record p (spec/Markup.tla: Params) becomes a
// real page carrying an OpenGraph block, a schema.org microdata block and IE Reading
// View tags of the requested shapes. Every generated value embeds its source and its
// field (og-title-17, schema-author-17, ie-title-17), so the projection of
// Result.MarkupInfo is "which source supplied field f" - decoding, not judging.
// The "provides" abstraction the trace spec judges with is re-measured on the parsed
// tree handed to Apply (mkMeasure), by reading the page as the three formats
// define themselves, never from the generator's strings.

func init() { register("C14", runMarkup) }

type mkSrc struct {
	Shape string            `json:"shape"`
	Pat   string            `json:"pat"`
	Img   string            `json:"img"`
	Rel   string            `json:"rel"` // schema.org only: rel=author elements outside the items
	Who   string            `json:"who"` // schema.org only: the property naming the article's author
	F     map[string]string `json:"f"`
	A     map[string]string `json:"a"`
}

type mkP struct {
	Og     mkSrc  `json:"og"`
	Schema mkSrc  `json:"schema"`
	Ie     mkSrc  `json:"ie"`
	Optout string `json:"optout"`
	Order  int    `json:"order"`
}

var mkFields = []string{"title", "type", "url", "description", "publisher", "copyright", "author", "images"}
var mkScalar = []string{"title", "url", "description", "publisher", "copyright", "author"}
var mkArt = []string{"publishedTime", "modifiedTime", "expirationTime", "section", "authors"}

var mkPerms = [][]string{
	{"og", "schema", "ie"}, {"og", "ie", "schema"}, {"schema", "og", "ie"},
	{"schema", "ie", "og"}, {"ie", "og", "schema"}, {"ie", "schema", "og"},
}

type mkBuilder struct {
	p  mkP
	g  *docGen
	id int
	ns int // how the OpenGraph prefixes are declared: 0 not at all, 1 html prefix, 2 head prefix, 3 xmlns on html
}

func (b *mkBuilder) tk(src, field string) string { return fmt.Sprintf("%s-%s-%d", src, field, b.id) }
func (b *mkBuilder) media(src, field string, k int) string {
	return fmt.Sprintf("https://media.example.org/%s-%s-%d-%d.png", src, field, b.id, k)
}
func (b *mkBuilder) pick(xs ...string) string { return xs[b.g.rng.Intn(len(xs))] }
func (b *mkBuilder) shuffle(xs []string) {
	b.g.rng.Shuffle(len(xs), func(i, j int) { xs[i], xs[j] = xs[j], xs[i] })
}

func mkOgMeta(prop, content string) string {
	return `<meta property="` + prop + `" content="` + content + `">`
}

// ogMetas: the core properties in random order, then - always after og:type - the
// type-dependent profile:* / article:* properties.
func (b *mkBuilder) ogMetas() []string {
	s := b.p.Og
	if s.Shape == "none" {
		return nil
	}
	var core, dep []string
	add := func(list *[]string, prop, status, val string) {
		switch status {
		case "present":
			*list = append(*list, mkOgMeta(prop, val))
		case "empty":
			*list = append(*list, mkOgMeta(prop, ""))
		case "absent":
			// a required property that is "not present" is either missing or there without a value
			if (prop == "og:title" || prop == "og:type" || prop == "og:url") && s.Shape != "none" && b.g.rng.Intn(2) == 0 {
				*list = append(*list, mkOgMeta(prop, ""))
			}
		}
	}
	typ := "article"
	switch s.Shape {
	case "website":
		typ = b.pick("website", "video.movie", "book")
	case "profile":
		typ = "profile"
	}
	add(&core, "og:title", s.F["title"], b.tk("og", "title"))
	add(&core, "og:type", s.F["type"], typ)
	add(&core, "og:url", s.F["url"], "https://www.example.org/"+b.tk("og", "url"))
	add(&core, "og:description", s.F["description"], b.tk("og", "description"))
	add(&core, "og:site_name", s.F["publisher"], b.tk("og", "publisher"))
	if s.F["images"] == "present" {
		n := 1 + b.g.rng.Intn(2)
		for k := 1; k <= n; k++ {
			grp := mkOgMeta("og:image", b.media("og", "images", k))
			if b.g.rng.Intn(2) == 0 {
				grp += mkOgMeta("og:image:width", "640") + mkOgMeta("og:image:height", "360")
			}
			if b.g.rng.Intn(3) == 0 {
				grp += mkOgMeta("og:image:type", "image/png")
			}
			if b.g.rng.Intn(3) == 0 {
				grp += mkOgMeta("og:image:secure_url", b.media("og", "images", k))
			}
			core = append(core, grp)
		}
	}
	b.shuffle(core)
	switch s.F["author"] {
	case "present":
		dep = append(dep, mkOgMeta("profile:first_name", b.tk("og", "author")), mkOgMeta("profile:last_name", b.tk("og", "authorlast")))
	case "empty":
		dep = append(dep, mkOgMeta("profile:first_name", ""), mkOgMeta("profile:last_name", ""))
	}
	add(&dep, "article:published_time", s.A["publishedTime"], b.tk("og", "publishedTime"))
	add(&dep, "article:modified_time", s.A["modifiedTime"], b.tk("og", "modifiedTime"))
	add(&dep, "article:expiration_time", s.A["expirationTime"], b.tk("og", "expirationTime"))
	add(&dep, "article:section", s.A["section"], b.tk("og", "section"))
	if s.A["authors"] == "present" {
		n := 1 + b.g.rng.Intn(2)
		for k := 1; k <= n; k++ {
			dep = append(dep, mkOgMeta("article:author", fmt.Sprintf("https://people.example.org/%s-%d", b.tk("og", "authors"), k)))
		}
	}
	// article:* properties only mean something for og:type article; pages of another type sometimes
	// carry them anyway (they come after og:type here, so the measured abstraction ignores them)
	if typ != "article" && s.F["type"] == "present" && b.g.rng.Intn(3) == 0 {
		dep = append(dep, mkOgMeta("article:author", "https://people.example.org/"+b.tk("og", "authors")+"-9"),
			mkOgMeta("article:section", b.tk("og", "section")))
	}
	b.shuffle(dep)
	// one type-dependent property before og:type: the parser cannot know yet that it belongs to an article and
	// drops it (the statement is silent about that one) - the properties AFTER og:type must still all be read
	if typ == "article" && s.F["type"] == "present" && s.A["expirationTime"] == "absent" && b.g.rng.Intn(3) == 0 {
		core = append([]string{mkOgMeta("article:expiration_time", b.tk("og", "expirationTime"))}, core...)
	}
	return append(core, dep...)
}

func (b *mkBuilder) ieMetas() (metas []string, dateInBody bool) {
	s := b.p.Ie
	add := func(name, status, val string) {
		switch status {
		case "present":
			metas = append(metas, `<meta name="`+name+`" content="`+val+`">`)
		case "empty":
			metas = append(metas, `<meta name="`+name+`" content="">`)
		}
	}
	add("title", s.F["title"], b.tk("ie", "title"))
	add("copyright", s.F["copyright"], b.tk("ie", "copyright"))
	dateInBody = b.g.rng.Intn(2) == 0
	if !dateInBody {
		add("displaydate", s.A["publishedTime"], b.tk("ie", "publishedTime"))
	}
	b.shuffle(metas)
	return metas, dateInBody
}

func (b *mkBuilder) ieBody(dateInBody bool) string {
	s := b.p.Ie
	var parts []string
	switch s.F["author"] {
	case "present":
		parts = append(parts, `<span class="byline-name">`+b.tk("ie", "author")+`</span>`)
	case "empty":
		parts = append(parts, `<span class="byline-name"></span>`)
	}
	if dateInBody {
		switch s.A["publishedTime"] {
		case "present":
			parts = append(parts, `<span class="dateline">`+b.tk("ie", "publishedTime")+`</span>`)
		case "empty":
			parts = append(parts, `<span class="dateline"> </span>`)
		}
	}
	attrName := b.pick("publisher", "source_organization")
	switch s.F["publisher"] {
	case "present":
		part := `<div ` + attrName + `="` + b.tk("ie", "publisher") + `">` + b.g.words(2) + `</div>`
		if b.g.rng.Intn(2) == 0 {
			// a syndication note further down names somebody else under the other attribute: the first carrier counts
			other := map[string]string{"publisher": "source_organization", "source_organization": "publisher"}[attrName]
			part += `<div ` + other + `="Zqwire Syndicate">` + b.g.words(2) + `</div>`
		}
		parts = append(parts, part)
	case "empty":
		parts = append(parts, `<div `+attrName+`="">`+b.g.words(2)+`</div>`)
	}
	if s.F["images"] == "present" {
		n := 1 + b.g.rng.Intn(2)
		for k := 1; k <= n; k++ {
			parts = append(parts, `<figure><img src="`+b.media("ie", "images", k)+`" width="640" height="360"><figcaption>`+b.g.words(3)+`</figcaption></figure>`)
		}
	}
	if len(parts) == 0 {
		return ""
	}
	b.shuffle(parts)
	return `<div class="zqie">` + strings.Join(parts, " ") + `</div>`
}

// strProp renders a string-valued microdata property.
func (b *mkBuilder) strProp(name, status, val, kind string) string {
	switch status {
	case "present":
		switch kind {
		case "url":
			return b.pick(`<a itemprop="`+name+`" href="`+val+`">`+b.g.words(1)+`</a>`,
				`<link itemprop="`+name+`" href="`+val+`">`, `<meta itemprop="`+name+`" content="`+val+`">`)
		case "date":
			return b.pick(`<time itemprop="`+name+`" datetime="`+val+`">`+b.g.words(1)+`</time>`,
				`<meta itemprop="`+name+`" content="`+val+`">`, `<span itemprop="`+name+`">`+val+`</span>`)
		case "image":
			return b.pick(`<img itemprop="`+name+`" src="`+val+`">`, `<link itemprop="`+name+`" href="`+val+`">`,
				`<meta itemprop="`+name+`" content="`+val+`">`)
		}
		return b.pick(`<span itemprop="`+name+`">`+val+`</span>`, `<meta itemprop="`+name+`" content="`+val+`">`,
			`<div itemprop="`+name+`"> `+val+` </div>`)
	case "empty":
		return b.pick(`<span itemprop="`+name+`"></span>`, `<meta itemprop="`+name+`" content="">`)
	}
	return ""
}

func (b *mkBuilder) imageObject(k int, asProp string, representative bool) string {
	var parts []string
	u := b.media("schema", "images", k)
	urlProp := b.pick("contentUrl", "contentUrl", "url")
	parts = append(parts, b.pick(`<meta itemprop="`+urlProp+`" content="`+u+`">`, `<img itemprop="`+urlProp+`" src="`+u+`">`))
	if b.g.rng.Intn(2) == 0 {
		parts = append(parts, `<span itemprop="caption">`+b.tk("schema", "imagecaption")+`</span>`)
	}
	if b.g.rng.Intn(2) == 0 {
		parts = append(parts, `<meta itemprop="width" content="600"><meta itemprop="height" content="400">`)
	}
	if representative {
		parts = append(parts, `<meta itemprop="representativeOfPage" content="true">`)
	}
	b.shuffle(parts)
	ip := ""
	if asProp != "" {
		ip = ` itemprop="` + asProp + `"`
	}
	return `<div` + ip + ` itemscope itemtype="http://schema.org/ImageObject">` + strings.Join(parts, "") + `</div>`
}

func (b *mkBuilder) nestedItem(prop, status, typ string, inner []string) string {
	if status == "absent" {
		return ""
	}
	body := strings.Join(inner, " ")
	if status == "empty" {
		body = b.pick(``, `<span itemprop="name"></span>`)
	}
	return `<div itemprop="` + prop + `" itemscope itemtype="http://schema.org/` + typ + `">` + body + `</div>`
}

func (b *mkBuilder) schemaBlock() string {
	s := b.p.Schema
	var top []string // top-level items in document order
	hasArticle := s.Shape == "article" || s.Shape == "nested" || s.Shape == "inUnsupported"
	if hasArticle {
		var parts []string
		add := func(x string) {
			if x != "" {
				parts = append(parts, x)
			}
		}
		add(b.strProp(b.pick("headline", "name"), s.F["title"], b.tk("schema", "title"), ""))
		add(b.strProp("url", s.F["url"], "https://www.example.org/"+b.tk("schema", "url"), "url"))
		add(b.strProp("description", s.F["description"], b.tk("schema", "description"), ""))
		holder := s.F["publisher"] == "present" && s.F["copyright"] == "present" && b.g.rng.Intn(2) == 0
		who := "author"
		if s.Who == "creator" {
			who = "creator"
		}
		if s.Shape == "nested" {
			// author as Person item, publisher / copyright holder as Organization items
			person := []string{`<span itemprop="name">` + b.tk("schema", "author") + `</span>`}
			if b.g.rng.Intn(2) == 0 {
				person = []string{`<span itemprop="givenName">` + b.tk("schema", "author") + `</span>`,
					`<span itemprop="familyName">` + b.tk("schema", "authorfamily") + `</span>`}
			}
			add(b.nestedItem(who, s.A["authors"], "Person", person))
			orgProp := b.pick("name", "legalName")
			add(b.nestedItem("publisher", s.F["publisher"], b.pick("Organization", "Corporation", "NGO"),
				[]string{`<span itemprop="` + orgProp + `">` + b.tk("schema", "publisher") + `</span>`}))
			if holder {
				add(b.nestedItem("copyrightHolder", "present", "Organization",
					[]string{`<span itemprop="name">` + b.tk("schema", "copyrightholder") + `</span>`}))
			}
		} else {
			add(b.strProp(who, s.A["authors"], b.tk("schema", "author"), ""))
			add(b.strProp("publisher", s.F["publisher"], b.tk("schema", "publisher"), ""))
			if holder {
				add(b.strProp("copyrightHolder", "present", b.tk("schema", "copyrightholder"), ""))
			}
		}
		add(b.strProp("copyrightYear", s.F["copyright"], b.tk("schema", "copyright"), ""))
		add(b.strProp("datePublished", s.A["publishedTime"], b.tk("schema", "publishedTime"), "date"))
		add(b.strProp("dateModified", s.A["modifiedTime"], b.tk("schema", "modifiedTime"), "date"))
		add(b.strProp("articleSection", s.A["section"], b.tk("schema", "section"), ""))
		switch s.Img {
		case "prop":
			add(b.strProp("image", "present", b.media("schema", "images", 1), "image"))
		case "associated":
			add(b.imageObject(1, b.pick("associatedMedia", "encoding"), false))
		case "imageItem":
			add(b.imageObject(1, "image", false))
		}
		b.shuffle(parts)
		art := `<div itemscope itemtype="http://schema.org/` + b.pick("Article", "NewsArticle", "BlogPosting", "TechArticle", "ScholarlyArticle") + `">` +
			strings.Join(parts, " ") + `</div>`
		if s.Shape == "inUnsupported" {
			// a top-level item (no itemprop) that merely sits inside an item of another type
			art = `<div itemscope itemtype="http://schema.org/Recipe"><span itemprop="cookTime">` + b.g.words(1) + `</span> ` + art + `</div>`
		}
		top = append(top, art)
	}
	if s.Shape == "unsupported" {
		top = append(top, `<div itemscope itemtype="http://schema.org/`+b.pick("Recipe", "Event", "Product")+`"><span itemprop="cookTime">`+
			b.g.words(1)+`</span> <span itemprop="recipeYield">`+b.g.words(1)+`</span></div>`)
	}
	switch s.Img {
	case "object":
		top = append(top, b.imageObject(1, "", false))
	case "representative":
		top = append(top, b.imageObject(1, "", false), b.imageObject(2, "", true))
	}
	if len(top) == 0 {
		return ""
	}
	if s.Img == "object" {
		b.shuffle(top)
	}
	return `<div class="zqsc">` + strings.Join(top, " ") + `</div>`
}

func (b *mkBuilder) page() string {
	order := b.p.Order % len(mkPerms)
	if order < 0 {
		order = 0
	}
	perm := mkPerms[order]
	ieM, dateInBody := b.ieMetas()
	blocks := map[string][]string{"og": b.ogMetas(), "ie": ieM}
	var head []string
	for _, s := range perm {
		head = append(head, blocks[s]...)
	}
	optout := ""
	switch b.p.Optout {
	case "true":
		optout = `<meta name="IE_RM_OFF" content="` + b.pick("true", "true", "TRUE", "True") + `">`
	case "other":
		// anything but "true" does not opt out - also what other formats read as a truth value
		optout = `<meta name="IE_RM_OFF" content="` + b.pick("false", "false", "0", "1", "t", "T", "no", "off", "") + `">`
	}
	if order%2 == 0 {
		head = append([]string{optout}, head...)
	} else {
		head = append(head, optout)
	}
	htmlAttrs, headAttrs := "", ""
	if b.p.Og.Shape != "none" {
		decl := `og: http://ogp.me/ns# article: http://ogp.me/ns/article# profile: http://ogp.me/ns/profile#`
		switch b.ns {
		case 1:
			htmlAttrs = ` prefix="` + decl + `"`
		case 2:
			headAttrs = ` prefix="` + decl + `"`
		case 3:
			htmlAttrs = ` xmlns:og="http://ogp.me/ns#" xmlns:article="http://ogp.me/ns/article#" xmlns:profile="http://ogp.me/ns/profile#"`
		}
	}
	bodyBlocks := map[string]string{"schema": b.schemaBlock(), "ie": b.ieBody(dateInBody)}
	var body []string
	for _, s := range perm {
		if x := bodyBlocks[s]; x != "" {
			body = append(body, x)
		}
	}
	switch b.p.Schema.Rel {
	case "present":
		// the first rel=author element WITH text counts; empty ones before it are passed over
		rel := `<a rel="author" href="/people/` + b.g.words(1) + `">` + b.tk("schema", "relauthor") + `</a>`
		if b.g.rng.Intn(2) == 0 {
			rel = b.pick(`<link rel="author" href="/people/index.html">`, `<a rel="author" href="/people/"></a>`) + " " + rel
		}
		body = append(body, `<p class="zqrel">`+b.g.words(3)+" "+rel+`</p>`)
	case "empty":
		body = append(body, `<p class="zqrel">`+b.g.words(3)+" "+b.pick(`<link rel="author" href="/people/index.html">`, `<a rel="author" href="/people/"></a>`,
			`<a rel="author" href="/people/"> </a><link rel="author" href="/x">`)+`</p>`)
	}
	if len(body) > 1 && b.g.rng.Intn(2) == 0 {
		body[0], body[len(body)-1] = body[len(body)-1], body[0]
	}
	para := b.g.para(60)
	at := order % 3
	if at > len(body) {
		at = len(body)
	}
	body = append(body[:at], append([]string{para}, body[at:]...)...)
	// a stray element in the head (a tracking pixel, a div) ends the head for the parser: everything after it,
	// the metas included, becomes part of the body - metadata is still metadata there
	stray := ""
	if b.g.rng.Intn(6) == 0 {
		stray = b.pick(`<img src="/pix.gif" width="1" height="1" alt="">`, `<div></div>`, `<noscript><img src="/pix.gif"></noscript>`)
	}
	return "<!DOCTYPE html><html" + htmlAttrs + "><head" + headAttrs + "><title>" + b.g.words(4) + "</title>" + stray +
		strings.Join(head, "") + "</head><body>" + strings.Join(body, "\n") + "</body></html>"
}

// ---------------------------------------------------------------- measuring the parsed page

type mkAbs struct {
	Valid   bool            `json:"valid"`
	Type    string          `json:"type"`
	Article bool            `json:"article"`
	F       map[string]bool `json:"f"`
	A       map[string]bool `json:"a"`
}

func mkNewAbs() mkAbs {
	a := mkAbs{Valid: true, Type: "none", F: map[string]bool{}, A: map[string]bool{}}
	for _, f := range mkFields {
		a.F[f] = false
	}
	for _, f := range mkArt {
		a.A[f] = false
	}
	return a
}

func mkElems(n *html.Node, visit func(*html.Node)) {
	if n.Type == html.ElementNode {
		visit(n)
	}
	for c := n.FirstChild; c != nil; c = c.NextSibling {
		mkElems(c, visit)
	}
}

func mkTextOf(n *html.Node) string {
	var sb strings.Builder
	var rec func(*html.Node)
	rec = func(x *html.Node) {
		if x.Type == html.TextNode {
			sb.WriteString(x.Data)
		}
		for c := x.FirstChild; c != nil; c = c.NextSibling {
			rec(c)
		}
	}
	rec(n)
	return strings.TrimSpace(sb.String())
}

func mkHasClass(n *html.Node, cls string) bool {
	v, _ := attr(n, "class")
	for _, c := range strings.Fields(v) {
		if c == cls {
			return true
		}
	}
	return false
}

// microdata item as the microdata specification reads it
type mkMdItem struct {
	typ   string
	str   map[string][]string
	items map[string][]*mkMdItem
}

var mkMdValueAttr = map[string]string{"meta": "content", "img": "src", "a": "href", "link": "href", "time": "datetime"}

func mkMdRead(n *html.Node, cur *mkMdItem, all *[]*mkMdItem) {
	for c := n.FirstChild; c != nil; c = c.NextSibling {
		if c.Type != html.ElementNode {
			continue
		}
		next := cur
		_, scope := attr(c, "itemscope")
		names, _ := attr(c, "itemprop")
		var it *mkMdItem
		if scope {
			t, _ := attr(c, "itemtype")
			it = &mkMdItem{typ: t, str: map[string][]string{}, items: map[string][]*mkMdItem{}}
			*all = append(*all, it)
			next = it
		}
		if cur != nil {
			for _, name := range strings.Fields(names) {
				if it != nil {
					cur.items[name] = append(cur.items[name], it)
					continue
				}
				v := ""
				if a, ok := mkMdValueAttr[c.Data]; ok {
					v, _ = attr(c, a)
				} else {
					v = mkTextOf(c)
				}
				cur.str[name] = append(cur.str[name], strings.TrimSpace(v))
			}
		}
		mkMdRead(c, next, all)
	}
}

func (it *mkMdItem) first(names ...string) string {
	for _, n := range names {
		for _, v := range it.str[n] {
			if v != "" {
				return v
			}
		}
	}
	return ""
}

// name of a string-or-item valued property (Person / Organization)
func (it *mkMdItem) nameOf(prop string) string {
	if v := it.first(prop); v != "" {
		return v
	}
	for _, sub := range it.items[prop] {
		if v := sub.first("name", "legalName", "givenName", "familyName"); v != "" {
			return v
		}
	}
	return ""
}

var mkMdArticleTypes = map[string]bool{"http://schema.org/Article": true, "http://schema.org/NewsArticle": true,
	"http://schema.org/BlogPosting": true, "http://schema.org/TechArticle": true, "http://schema.org/ScholarlyArticle": true}

func mkMeasure(doc *html.Node) (map[string]interface{}, map[string]int) {
	og, sc, ie := mkNewAbs(), mkNewAbs(), mkNewAbs()
	info := map[string]int{"ogmeta": 0, "items": 0, "earlydep": 0}
	optout := false
	// ---- OpenGraph: <meta property="og:..|article:..|profile:.." content>
	props := map[string]string{}
	nImg := 0
	typeSeen := false
	hasTitleElem := false
	ieVals := map[string]string{}
	dateline, byline, publisher := "", "", ""
	relAuthor := ""
	sawDateline, sawByline := false, false
	ieImg := false
	mkElems(doc, func(n *html.Node) {
		if n.Data == "title" {
			hasTitleElem = true
		}
		if n.Data == "meta" {
			if pr, ok := attr(n, "property"); ok {
				content, _ := attr(n, "content")
				pr = strings.ToLower(pr)
				info["ogmeta"]++
				if pr == "og:type" {
					typeSeen = true
				}
				if (strings.HasPrefix(pr, "article:") || strings.HasPrefix(pr, "profile:")) && !typeSeen {
					info["earlydep"]++
					return // not counted as provided: see ogMetas
				}
				if pr == "og:image" {
					if content != "" {
						nImg++
					}
				} else if pr == "article:author" {
					if content != "" {
						props[pr] = content
					}
				} else if _, dup := props[pr]; !dup {
					props[pr] = content
				}
			}
			if name, ok := attr(n, "name"); ok {
				content, _ := attr(n, "content")
				ln := strings.ToLower(name)
				if _, dup := ieVals[ln]; !dup {
					ieVals[ln] = content
				}
				if name == "IE_RM_OFF" && strings.EqualFold(content, "true") {
					optout = true
				}
			}
		}
		if rel, _ := attr(n, "rel"); (n.Data == "a" || n.Data == "link") && rel == "author" && relAuthor == "" {
			relAuthor = mkTextOf(n)
		}
		if mkHasClass(n, "byline-name") && !sawByline {
			sawByline = true
			byline = mkTextOf(n)
		}
		if mkHasClass(n, "dateline") && !sawDateline {
			sawDateline = true
			dateline = mkTextOf(n)
		}
		if publisher == "" {
			if v, _ := attr(n, "publisher"); v != "" {
				publisher = v
			} else if v, _ := attr(n, "source_organization"); v != "" {
				publisher = v
			}
		}
		if n.Data == "img" && n.Parent != nil && n.Parent.Data == "figure" {
			src, _ := attr(n, "src")
			capt := ""
			for c := n.Parent.FirstChild; c != nil; c = c.NextSibling {
				if c.Type == html.ElementNode && c.Data == "figcaption" && capt == "" {
					capt = mkTextOf(c)
				}
			}
			if src != "" && capt != "" {
				ieImg = true
			}
		}
	})
	t := strings.ToLower(props["og:type"])
	switch t {
	case "":
		og.Type = "none"
	case "article", "profile":
		og.Type = t
	default:
		og.Type = "website"
	}
	og.Article = og.Type == "article"
	og.F["title"] = props["og:title"] != ""
	og.F["type"] = t != ""
	og.F["url"] = props["og:url"] != ""
	og.F["images"] = nImg > 0
	og.F["description"] = props["og:description"] != ""
	og.F["publisher"] = props["og:site_name"] != ""
	og.F["author"] = og.Type == "profile" && props["profile:first_name"] != "" && props["profile:last_name"] != ""
	if og.Type == "article" {
		og.A["publishedTime"] = props["article:published_time"] != ""
		og.A["modifiedTime"] = props["article:modified_time"] != ""
		og.A["expirationTime"] = props["article:expiration_time"] != ""
		og.A["section"] = props["article:section"] != ""
		og.A["authors"] = props["article:author"] != ""
	}
	og.Valid = og.F["title"] && og.F["type"] && og.F["url"] && og.F["images"]
	// ---- schema.org microdata
	var items []*mkMdItem
	mkMdRead(doc, nil, &items)
	info["items"] = len(items)
	var article *mkMdItem
	for _, it := range items {
		if mkMdArticleTypes[it.typ] && article == nil {
			article = it
		}
		if it.typ == "http://schema.org/ImageObject" && it.first("contentUrl", "url") != "" {
			sc.F["images"] = true
		}
	}
	if article != nil {
		sc.Article = true
		sc.Type = "article"
		sc.F["type"] = true
		sc.F["title"] = article.first("headline", "name") != ""
		sc.F["url"] = article.first("url") != ""
		sc.F["description"] = article.first("description") != ""
		sc.F["publisher"] = article.nameOf("publisher") != ""
		sc.F["copyright"] = article.first("copyrightYear") != "" || article.nameOf("copyrightHolder") != ""
		sc.F["author"] = article.nameOf("author") != "" || article.nameOf("creator") != ""
		if article.first("image") != "" {
			sc.F["images"] = true
		}
		sc.A["publishedTime"] = article.first("datePublished") != ""
		sc.A["modifiedTime"] = article.first("dateModified") != ""
		sc.A["section"] = article.first("articleSection") != ""
		sc.A["authors"] = sc.F["author"]
	}
	if relAuthor != "" {
		sc.F["author"] = true
	}
	// ---- IE Reading View
	ie.F["title"] = hasTitleElem && ieVals["title"] != ""
	ie.F["copyright"] = ieVals["copyright"] != ""
	ie.F["publisher"] = publisher != ""
	ie.F["author"] = byline != ""
	ie.F["images"] = ieImg
	if sawDateline {
		ie.A["publishedTime"] = dateline != ""
	} else {
		ie.A["publishedTime"] = ieVals["displaydate"] != ""
	}
	ie.A["authors"] = ie.F["author"]
	return map[string]interface{}{"optout": optout, "og": og, "schema": sc, "ie": ie}, info
}

// ---------------------------------------------------------------- projection

var rxMkToken = regexp.MustCompile(`(og|schema|ie)-([a-zA-Z]+)-(\d+)`)

// mkOrigin decodes which source generated a value: "none" for the empty string,
// "other" for a value that carries no generated token.
func mkOrigin(v string) string {
	if strings.TrimSpace(v) == "" {
		return "none"
	}
	m := rxMkToken.FindStringSubmatch(v)
	if m == nil {
		return "other"
	}
	return m[1]
}

func runMarkup(c Case, e *env) []Event {
	var p mkP
	raw, _ := json.Marshal(c.P)
	if err := json.Unmarshal(raw, &p); err != nil || p.Og.F == nil || p.Schema.F == nil || p.Ie.F == nil {
		return []Event{{"ev": "Skip", "run": c.ID, "why": "bad case"}}
	}
	g := newDocGen(e.seed, c.ID)
	b := &mkBuilder{p: p, g: g, id: c.ID, ns: (c.ID + int(e.seed)) % 4}
	page := b.page()
	doc, err := html.Parse(strings.NewReader(page))
	if err != nil {
		return []Event{{"ev": "Skip", "run": c.ID, "why": "unparseable"}}
	}
	m, info := mkMeasure(doc)
	opt := OptSpec{Skip: true}
	if c.ID%16 == 0 {
		opt.Log = (c.ID / 16) % 16
	}
	if c.ID%5 == 0 {
		opt.URL = "https://www.example.org/news/story-" + strconv.Itoa(c.ID) + ".html"
	}
	call := Event{"ev": "Call", "run": c.ID, "prop": e.prop, "p": c.P, "m": m, "ns": b.ns, "info": info}
	if showInputs {
		call["html"] = page
	}
	out := applyTree(doc, opt)
	if ev, bad := outcomeEvent(c.ID, out); bad {
		return []Event{call, ev}
	}
	f := map[string]string{}
	for _, k := range mkScalar {
		f[k] = "none"
	}
	art := map[string]interface{}{"publishedTime": "none", "modifiedTime": "none", "expirationTime": "none", "section": "none", "authors": []string{}}
	images := []string{}
	typ := "none"
	failed := out.err != nil || out.res == nil
	if !failed {
		mi := out.res.MarkupInfo
		f["title"], f["url"], f["description"] = mkOrigin(mi.Title), mkOrigin(mi.URL), mkOrigin(mi.Description)
		f["publisher"], f["copyright"], f["author"] = mkOrigin(mi.Publisher), mkOrigin(mi.Copyright), mkOrigin(mi.Author)
		switch mi.Type {
		case "":
			typ = "none"
		case "Article":
			typ = "article"
		default:
			typ = "other"
		}
		for _, im := range mi.Images {
			v := im.URL
			if v == "" {
				v = im.SecureURL + im.Caption + im.Type
				if v == "" {
					v = "?"
				}
			}
			images = append(images, mkOrigin(v))
		}
		art["publishedTime"] = mkOrigin(mi.Article.PublishedTime)
		art["modifiedTime"] = mkOrigin(mi.Article.ModifiedTime)
		art["expirationTime"] = mkOrigin(mi.Article.ExpirationTime)
		art["section"] = mkOrigin(mi.Article.Section)
		authors := []string{}
		for _, a := range mi.Article.Authors {
			authors = append(authors, mkOrigin(a))
		}
		art["authors"] = authors
		// sensitivity counters
		srcs := map[string]bool{}
		for k, v := range f {
			count("win_" + k + "_" + v)
			if v != "none" {
				srcs[v] = true
			}
		}
		io := "none"
		if len(images) > 0 {
			io = images[0]
			srcs[io] = true
		}
		count("win_images_" + io)
		count("win_type_" + typ)
		ao := "none"
		for _, k := range []string{"publishedTime", "modifiedTime", "expirationTime", "section"} {
			if v := art[k].(string); v != "none" {
				ao = v
			}
		}
		if ao == "none" && len(authors) > 0 {
			ao = authors[0]
		}
		count("article_" + ao)
		if len(srcs) >= 2 {
			count("mixed_sources")
		}
		if p.Og.Shape != "none" {
			if m["og"].(mkAbs).Valid {
				count("og_valid")
			} else {
				count("og_disqualified_" + p.Og.Shape)
			}
		}
		count("optout_" + p.Optout)
	}
	ret := Event{"ev": "Return", "run": c.ID, "obs": map[string]interface{}{
		"err": failed, "f": f, "type": typ, "images": images, "art": art}}
	return []Event{call, ret}
}
