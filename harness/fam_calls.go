package main

import (
	"crypto/sha1"
	"encoding/hex"
	"fmt"
	"io"
	"math/rand"
	"net/http"
	"net/http/httptest"
	nurl "net/url"
	"os"
	"path/filepath"
	"regexp"
	"strings"
	"time"

	"github.com/go-shiori/dom"
	distiller "github.com/markusmobius/go-domdistiller"
	"golang.org/x/net/html"
)

// The "calls" family (C01, C10, C11, C13): a case is a GROUP of calls - a history -
// on one document: root kind x entry points x option tuples. Every call is recorded
// as Call, the pipeline phases seen by the verif hooks (RootCheck, Pass, DocFilter,
// Rendered, Paginated) and Return with field digests and argument digests
// (before/after). spec/trace/CallsTrace.tla replays each call through the actions of
// spec/Distiller.tla and compares digests across the calls of a group.

func init() { register("C01,C10,C11,C13", runCalls) }

var urlClasses = []string{
	"",
	"https://example.com/story/view?pg=2",
	"https://example.com/news/item/",
	"https://example.com/",
	"http://example.com/story/view/3",
	// odd ones (C01)
	"foo/bar",
	"mailto:x@example.com",
	"http:///p",
	"https://user:pw@example.com/a/b",
	"http://ⱥ/",
	"http://[::1]:8080/p?x=1",
	"HTTP://EXAMPLE.COM/Story/View/2",
	"https://example.com/story/view/2#frag",
	"https://example.com",
	"https://example.com/story/view?tag=go&pg=2",
	"https://example.com/story/view?pg=2&pg=3&tag=web",
	"https://example.com/zqt/12/p/1",
	"https://example.com/caf%C3%A9/old%20town/story%2Fview/2",
	"https://example.com/y/x/y/x/abc.html",
	"https://example.com/story/view/2/2/",
}

type callStep struct {
	Entry string `json:"entry"`
	Nil   bool   `json:"nil"`
	Log   int    `json:"log"`
	URL   int    `json:"url"` // index into urlClasses (0 = none)
	Skip  bool   `json:"skip"`
	Algo  string `json:"algo"`
	Doc   int    `json:"doc"` // >= 0: this call distils another document than the group's (interleaved unrelated calls)
}

func stepsOf(c Case) []callStep {
	var out []callStep
	for _, x := range c.list("hist") {
		m, ok := x.(map[string]interface{})
		if !ok {
			continue
		}
		s := callStep{Entry: "apply", Algo: "prevnext", Doc: -1}
		if v, ok := m["doc"].(float64); ok {
			s.Doc = int(v)
		}
		if v, ok := m["entry"].(string); ok {
			s.Entry = v
		}
		if v, ok := m["nil"].(bool); ok {
			s.Nil = v
		}
		if v, ok := m["log"].(float64); ok {
			s.Log = int(v)
		}
		switch v := m["url"].(type) {
		case float64:
			s.URL = int(v)
		case bool:
			if v {
				s.URL = 1
			}
		}
		if v, ok := m["skip"].(bool); ok {
			s.Skip = v
		}
		if v, ok := m["algo"].(string); ok {
			s.Algo = v
		}
		out = append(out, s)
	}
	return out
}

// ---- deep snapshots of caller-owned arguments ------------------------------

func topOf(n *html.Node) *html.Node {
	for n.Parent != nil {
		n = n.Parent
	}
	return n
}

// snapshotTree digests the whole tree containing root: node identities (pointers in
// pre-order), parent/sibling links, type, data, namespace, attributes.
func snapshotTree(root *html.Node) string {
	h := sha1.New()
	var rec func(n *html.Node)
	rec = func(n *html.Node) {
		fmt.Fprintf(h, "%p|%p|%p|%p|%p|%p|%d|%q|%q|%d;", n, n.Parent, n.FirstChild, n.LastChild, n.PrevSibling, n.NextSibling,
			n.Type, n.Data, n.Namespace, n.DataAtom)
		for _, a := range n.Attr {
			fmt.Fprintf(h, "%q=%q/%q,", a.Key, a.Val, a.Namespace)
		}
		for c := n.FirstChild; c != nil; c = c.NextSibling {
			rec(c)
		}
	}
	rec(topOf(root))
	return hex.EncodeToString(h.Sum(nil)[:8])
}

func snapshotOpts(o *distiller.Options) string {
	if o == nil {
		return "nil"
	}
	u := "nil"
	if o.OriginalURL != nil {
		u = fmt.Sprintf("%p|%#v", o.OriginalURL, *o.OriginalURL)
	}
	return dig(fmt.Sprintf("%d|%v|%d|%s", o.LogFlags, o.SkipPagination, o.PaginationAlgo, u))
}

// ---- roots ---------------------------------------------------------------

func allElements(doc *html.Node) []*html.Node {
	var out []*html.Node
	var rec func(n *html.Node)
	rec = func(n *html.Node) {
		if n.Type == html.ElementNode {
			out = append(out, n)
		}
		for c := n.FirstChild; c != nil; c = c.NextSibling {
			rec(c)
		}
	}
	rec(doc)
	return out
}

func cloneDeep(n *html.Node) *html.Node {
	c := &html.Node{Type: n.Type, DataAtom: n.DataAtom, Data: n.Data, Namespace: n.Namespace, Attr: append([]html.Attribute{}, n.Attr...)}
	for ch := n.FirstChild; ch != nil; ch = ch.NextSibling {
		c.AppendChild(cloneDeep(ch))
	}
	return c
}

func handBuilt(r *rand.Rand, g *docGen) *html.Node {
	el := func(tag string, attrs ...string) *html.Node {
		n := &html.Node{Type: html.ElementNode, Data: tag}
		for i := 0; i+1 < len(attrs); i += 2 {
			n.Attr = append(n.Attr, html.Attribute{Key: attrs[i], Val: attrs[i+1]})
		}
		return n
	}
	txt := func(s string) *html.Node { return &html.Node{Type: html.TextNode, Data: s} }
	switch r.Intn(11) {
	case 9, 10:
		// a widget built in memory: some words and a numbered pager, nothing above it and nothing beside it
		n := el("div")
		p := el("p")
		p.AppendChild(txt(g.words(30)))
		n.AppendChild(p)
		cur := el("span")
		cur.AppendChild(txt("1"))
		n.AppendChild(cur)
		for i := 2; i <= 3; i++ {
			n.AppendChild(txt(" "))
			a := el("a", "href", fmt.Sprintf("/story/view/%d", i))
			a.AppendChild(txt(fmt.Sprint(i)))
			n.AppendChild(a)
		}
		return n
	case 0:
		n := el("span")
		n.AppendChild(txt(g.words(20)))
		return n
	case 1:
		n := el("a", "href", "javascript:void(0)")
		n.AppendChild(txt(g.words(3)))
		return n
	case 2:
		n := el("b")
		i := el("i")
		i.AppendChild(txt(g.words(30)))
		n.AppendChild(i)
		return n
	case 3:
		n := el("img", "src", "/i/m1.png")
		return n
	case 4:
		n := el("li")
		n.AppendChild(txt(g.words(25)))
		return n
	case 5:
		n := el("td")
		n.AppendChild(txt(g.words(25)))
		return n
	case 6:
		n := el("font")
		n.AppendChild(txt(g.words(18)))
		return n
	case 7:
		n := el("br")
		return n
	default:
		n := el("p")
		a := el("a", "href", "javascript:x()")
		a.AppendChild(txt(g.words(2)))
		n.AppendChild(txt(g.words(20)))
		n.AppendChild(a)
		n.AppendChild(txt(g.words(20)))
		return n
	}
}

// makeRoot builds the node handed to Apply for a root kind.
func makeRoot(kind, page string, r *rand.Rand, g *docGen) (*html.Node, string) {
	switch kind {
	case "emptyDocument":
		d := &html.Node{Type: html.DocumentNode}
		if r.Intn(2) == 0 {
			d.AppendChild(&html.Node{Type: html.CommentNode, Data: "nothing"})
			d.AppendChild(&html.Node{Type: html.DoctypeNode, Data: "html"})
		}
		return d, "empty"
	case "text":
		return &html.Node{Type: html.TextNode, Data: g.words(30)}, "text"
	case "comment":
		return &html.Node{Type: html.CommentNode, Data: g.words(3)}, "comment"
	case "doctype":
		return &html.Node{Type: html.DoctypeNode, Data: "html"}, "doctype"
	}
	// the tree entry point gets the tree that the byte entry points build themselves (dom.Parse:
	// charset detection, normalisation), so that entry-point agreement is about the distiller only
	doc, err := dom.Parse(strings.NewReader(page))
	if err != nil {
		doc, err = html.Parse(strings.NewReader(page))
	}
	if err != nil {
		return &html.Node{Type: html.DocumentNode}, "unparsed"
	}
	switch kind {
	case "element":
		els := allElements(doc)
		e := els[r.Intn(len(els))]
		return e, "attached:" + e.Data
	case "detachedElement":
		if r.Intn(2) == 0 {
			n := handBuilt(r, g)
			return n, "handbuilt:" + n.Data
		}
		els := allElements(doc)
		pick := els[r.Intn(len(els))]
		if r.Intn(3) == 0 {
			// a fragment cut out around the pager (a widget rendered on its own): nothing above it, nothing beside it
			for _, e := range els {
				if c, _ := attr(e, "class"); c == "pg" {
					pick = e
					if e.Parent != nil && e.Parent.Type == html.ElementNode && e.Parent.Data != "body" && r.Intn(2) == 0 {
						pick = e.Parent
					}
					break
				}
			}
		}
		e := cloneDeep(pick)
		return e, "detached:" + e.Data
	}
	return doc, "document"
}

var rxBlanks = regexp.MustCompile(`[ \t]+`)

var rxRoleAttr = regexp.MustCompile(` role="[^"]*"`)

var loopback *httptest.Server
var loopbackPage string

func serveLoopback(page string) string {
	loopbackPage = page
	if loopback == nil {
		loopback = httptest.NewServer(http.HandlerFunc(func(w http.ResponseWriter, r *http.Request) {
			w.Header().Set("Content-Type", "text/html; charset=utf-8")
			io.WriteString(w, loopbackPage)
		}))
	}
	return loopback.URL + "/story/view?pg=2"
}

func buildOpts(s callStep) *distiller.Options {
	if s.Nil {
		return nil
	}
	o := &distiller.Options{LogFlags: logFlags(s.Log), SkipPagination: s.Skip}
	if s.Algo == "pagenumber" {
		o.PaginationAlgo = distiller.PageNumber
	}
	if s.URL > 0 && s.URL < len(urlClasses) {
		if u, err := nurl.Parse(urlClasses[s.URL]); err == nil {
			o.OriginalURL = u
		}
	}
	return o
}

func runCalls(c Case, e *env) []Event {
	g := newDocGen(e.seed, c.ID)
	r := g.rng
	docid := c.num("doc", 0)
	rootKind := c.str("root", "document")
	page := c.str("page", "")
	if page == "" {
		page = richDoc(docid, g)
	}
	variant := c.str("variant", "")
	runoff := c.num("runoff", 0)
	if reverseOrder {
		runoff += 500
	}
	if mode := c.str("mode", ""); mode != "" {
		page = mutateBytes(page, mode, c.num("param", 0), r)
	}
	steps := stepsOf(c)
	if len(steps) == 0 {
		steps = []callStep{{Entry: "apply", Algo: "prevnext", Doc: -1}}
	}
	root, rootDesc := makeRoot(rootKind, page, r, g)
	mainRoot, mainPage, mainDoc := root, page, docid
	otherRoots := map[int]*html.Node{}
	otherPages := map[int]string{}
	optsCache := map[string]*distiller.Options{}
	var evs []Event
	var tmpFile string
	for k, s := range steps {
		run := c.ID*1000 + k + runoff
		root, page, docid = mainRoot, mainPage, mainDoc
		if s.Doc >= 0 && s.Doc != mainDoc {
			if _, ok := otherRoots[s.Doc]; !ok {
				otherPages[s.Doc] = richDoc(s.Doc, newDocGen(e.seed, s.Doc))
				otherRoots[s.Doc], _ = makeRoot("document", otherPages[s.Doc], r, g)
			}
			root, page, docid = otherRoots[s.Doc], otherPages[s.Doc], s.Doc
		}
		key := fmt.Sprintf("%v|%d|%d|%v|%s", s.Nil, s.Log, s.URL, s.Skip, s.Algo)
		opts, ok := optsCache[key]
		if !ok {
			opts = buildOpts(s)
			optsCache[key] = opts
		}
		entry := s.Entry
		if rootKind != "document" {
			entry = "apply"
		}
		suppliedURL := ""
		if opts != nil && opts.OriginalURL != nil {
			suppliedURL = opts.OriginalURL.String()
		}
		treeBefore := snapshotTree(root)
		optsBefore := snapshotOpts(opts)
		// the effective abstract options of the call (ApplyForURL supplies the URL itself)
		hasURL := !s.Nil && s.URL > 0 && opts != nil && opts.OriginalURL != nil
		call := Event{"ev": "Call", "run": run, "grp": c.ID, "seq": k + 1, "prop": e.prop, "entry": entry, "root": rootKind,
			"rootdesc": rootDesc, "doc": docid, "nil": s.Nil, "log": s.Log, "url": hasURL, "urlid": s.URL, "skip": !s.Nil && s.Skip,
			"algo": s.Algo, "bytes": entry != "apply", "variant": variant}
		if s.Nil {
			call["algo"] = "prevnext"
			call["log"] = 0
		}
		if entry == "url" {
			// ApplyForURL supplies the page URL itself (the fetched address) whatever the options say
			call["url"] = true
			call["urlid"] = 99
			call["nil"] = false
		}
		if showInputs {
			call["html"] = page
			if s.URL > 0 && s.URL < len(urlClasses) {
				call["pageurl"] = urlClasses[s.URL]
			}
		}
		var out callOutcome
		switch entry {
		case "reader":
			out = guarded(func() (*distiller.Result, error) { return distiller.ApplyForReader(strings.NewReader(page), opts) })
		case "file":
			if tmpFile == "" {
				f, err := os.CreateTemp("", "vdrive-*.html")
				if err == nil {
					f.WriteString(page)
					f.Close()
					tmpFile = f.Name()
				}
			}
			out = guarded(func() (*distiller.Result, error) { return distiller.ApplyForFile(tmpFile, opts) })
		case "url":
			u := serveLoopback(page)
			out = guarded(func() (*distiller.Result, error) { return distiller.ApplyForURL(u, 5*time.Second, opts) })
		default:
			out = guarded(func() (*distiller.Result, error) { return distiller.Apply(root, opts) })
		}
		evs = append(evs, call)
		count("calls")
		for _, h := range out.hooks {
			kv := hookKV(h)
			switch h.Name {
			case "RootCheck":
				evs = append(evs, Event{"ev": "RootCheck", "run": run, "ok": kv["ok"]})
			case "Pass":
				evs = append(evs, Event{"ev": "Pass", "run": run, "n": kv["n"], "skip": kv["skipUnlikelies"], "wc": kv["wc"]})
			case "DocFilter":
				evs = append(evs, Event{"ev": "DocFilter", "run": run, "name": kv["name"]})
			case "Rendered":
				evs = append(evs, Event{"ev": "Rendered", "run": run, "wc": kv["wc"]})
			case "Paginated":
				evs = append(evs, Event{"ev": "Paginated", "run": run, "algo": kv["algo"]})
			}
		}
		if ev, bad := outcomeEvent(run, out); bad {
			evs = append(evs, ev)
			count("crashed")
			if out.hang {
				break
			}
			continue
		}
		obs := map[string]interface{}{"err": out.err != nil || out.res == nil, "nodeok": false, "ms": out.dur.Milliseconds(),
			"core": "", "urldig": "", "pag": "", "pagempty": true, "urlfield": "none", "wc": -1, "view": "", "txtwc": -1, "glued": 0, "ntitle": 0, "onlytxt": false,
			"treesame": snapshotTree(root) == treeBefore, "optssame": snapshotOpts(opts) == optsBefore}
		if out.err == nil && out.res != nil {
			res := out.res
			obs["nodeok"] = res.Node != nil && res.Node.Type == html.ElementNode && res.Node.Data == "div"
			d := digestResult(res)
			obs["core"] = d["core"]
			obs["urldig"] = d["url"]
			obs["pag"] = d["pagination"]
			obs["pagempty"] = res.PaginationInfo.NextPage == "" && res.PaginationInfo.PrevPage == ""
			obs["wc"] = res.WordCount
			viewHTML := renderNode(res.Node)
			if variant != "" {
				// the renamed marker itself (role survives attribute stripping) is not a difference
				viewHTML = rxRoleAttr.ReplaceAllString(viewHTML, "")
			}
			viewText := res.Text
			if variant != "" {
				// runs of blanks are one blank to every reader of HTML and of the text view: the three pages of a
				// triple differ in how many blanks surround the place of the marked subtree
				viewHTML = rxBlanks.ReplaceAllString(viewHTML, " ")
				viewText = rxBlanks.ReplaceAllString(viewText, " ")
			}
			obs["view"] = dig(viewText + "\x00" + viewHTML)
			obs["txtwc"] = countWords(res.Text)
			// words of the text view that are made of several source words: a word that continues across an
			// inline element (10<sup>th</sup>); each joint is one place where two text nodes meet inside a word
			glued := 0
			for _, f := range strings.Fields(res.Text) {
				if k := len(rxTok.FindAllString(f, -1)); k > 1 {
					glued += k - 1
				}
			}
			obs["glued"] = glued
			obs["ntitle"] = len(res.Title)
			obs["onlytxt"] = onlyText(res.Node)
			if obs["onlytxt"].(bool) && res.Title == "" && res.Text != "" {
				count("wordcount_clause_applies")
			}
			switch {
			case res.URL == "":
				obs["urlfield"] = "empty"
			case s.URL > 0 && s.URL < len(urlClasses) && res.URL == suppliedURL:
				obs["urlfield"] = "same"
			case entry == "url" && strings.HasPrefix(res.URL, "http://127.0.0.1"):
				obs["urlfield"] = "same"
			default:
				obs["urlfield"] = "other"
			}
			count("returned_result")
			if !obs["pagempty"].(bool) {
				count("pagination_found")
			}
		} else {
			count("returned_error")
		}
		evs = append(evs, Event{"ev": "Return", "run": run, "obs": obs})
	}
	if tmpFile != "" {
		os.Remove(tmpFile)
	}
	_ = filepath.Base
	return evs
}

// mutateBytes derives a byte-level input from a page (C01): truncation at a tag
// boundary, NUL bytes, unclosed / misnested tags, deep nesting, tag soup.
func mutateBytes(page, mode string, param int, r *rand.Rand) string {
	switch mode {
	case "trunc":
		// cut after the param-th of 40 evenly spaced '<' or '>' positions
		var cuts []int
		for i, ch := range page {
			if ch == '<' || ch == '>' {
				cuts = append(cuts, i)
			}
		}
		if len(cuts) == 0 {
			return page
		}
		i := cuts[(param*len(cuts)/40)%len(cuts)]
		if param%2 == 0 {
			i++
		}
		return page[:i]
	case "nul":
		b := []byte(page)
		for k := 0; k < 1+param%5; k++ {
			b[r.Intn(len(b))] = 0
		}
		return string(b)
	case "misnest":
		tags := []string{"</p>", "</div>", "</li>", "</td>", "</table>", "</a>", "</b>", "<p>", "<table>", "<tr>", "<li>", "<a href=x>", "<b>", "</ul>", "</body>", "</html>", "<body>", "<html>", "<head>", "<title>", "<select>", "<option>", "<svg>", "<math>", "<template>", "<frameset>", "<plaintext>"}
		b := page
		for k := 0; k < 3+param%8; k++ {
			i := r.Intn(len(b))
			b = b[:i] + tags[r.Intn(len(tags))] + b[i:]
		}
		return b
	case "deep":
		depth := []int{100, 500, 1000, 2000}[param%4]
		tag := []string{"div", "span", "b", "ul><li", "blockquote", "a href=y", "font", "table><tr><td"}[(param/4)%8]
		close := map[string]string{"ul><li": "</li></ul>", "a href=y": "</a>", "table><tr><td": "</td></tr></table>"}
		cl, ok := close[tag]
		if !ok {
			cl = "</" + tag + ">"
		}
		return "<html><body>" + strings.Repeat("<"+tag+">", depth) + "deep words here and some more words to count " + strings.Repeat(cl, depth) + "<p>" + strings.Repeat("tail word ", 60) + "</p></body></html>"
	case "soup":
		tags := []string{"p", "div", "span", "a", "b", "i", "ul", "ol", "li", "table", "tr", "td", "th", "caption", "img", "br", "figure", "figcaption", "video", "source", "iframe", "blockquote", "pre", "font", "h1", "h2", "script", "style", "noscript", "form", "input", "select", "option", "button", "object", "embed", "svg", "picture", "title", "head", "body", "html", "meta", "link", "template", "math", "textarea"}
		attrs := []string{"", ` href="javascript:x()"`, ` href="?pg=2"`, ` href="/a/3"`, ` src="/i/x.png"`, ` class="sidebar"`, ` hidden`, ` style="display:none"`, ` role="navigation"`, ` id="comment-list"`, ` itemscope itemtype="http://schema.org/Article"`, ` itemprop="author"`, ` contenteditable="true"`, ` srcset="a.png 1x, b.png 2x"`, ` data-src="x.jpg"`, ` class="twitter-tweet"`, ` rowspan="x"`, ` colspan="99999999999"`}
		var sb strings.Builder
		n := 20 + r.Intn(120)
		for k := 0; k < n; k++ {
			switch r.Intn(5) {
			case 0:
				sb.WriteString("</" + tags[r.Intn(len(tags))] + ">")
			case 1:
				sb.WriteString(fmt.Sprintf("w%d 1 2 %d next ", k, k))
			default:
				sb.WriteString("<" + tags[r.Intn(len(tags))] + attrs[r.Intn(len(attrs))] + ">")
				if r.Intn(3) == 0 {
					sb.WriteString(fmt.Sprintf("t%d words and more words ", k))
				}
			}
		}
		return sb.String()
	case "empty":
		return []string{"", " ", "\n", "<", "<!", "<!--", "<!DOCTYPE", "\x00", "\xff\xfe", "plain text only no tags at all"}[param%10]
	}
	return page
}

// onlyText: the distilled HTML holds nothing but text blocks (no table, figure, image, video, frame, placeholder).
func onlyText(n *html.Node) bool {
	if n == nil {
		return true
	}
	if n.Type == html.ElementNode {
		switch n.Data {
		case "table", "figure", "img", "picture", "video", "iframe":
			return false
		}
		if isPlaceholder(n) {
			return false
		}
	}
	for c := n.FirstChild; c != nil; c = c.NextSibling {
		if !onlyText(c) {
			return false
		}
	}
	return true
}
