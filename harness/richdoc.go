package main

import (
	"fmt"
	"math/rand"
	"strings"
)

// Rich documents for the "calls" family (C01, C10, C11, C13): pages that reach every
// mutating path of the pipeline (javascript: anchors, <font>, noscript figures,
// pictures, lazy attributes, embeds, data and layout tables), both pagination
// finders, the markup parsers and the two-pass logic. docspec = template id; the
// members inside a template rotate with the PRNG of the docGen.

const nRichDocs = 28

func pagerHTML(g *docGen, style string, n, k int) string {
	var sb strings.Builder
	sb.WriteString(`<div class="pg">`)
	if k > 1 {
		sb.WriteString(fmt.Sprintf(`<a href="%s">Prev</a> `, pagerURL(style, k-1)))
	}
	// many themes put a label for screen readers next to the number
	label := g.pick("", "", "", `<span class="screen-reader-text">Page </span>`, `<span class="sr-only">Page</span> `, `<span class="visually-hidden">page </span>`)
	// newest first: some archives count their pages down
	desc := g.rng.Intn(4) == 0
	for j := 1; j <= n; j++ {
		i := j
		if desc {
			i = n + 1 - j
		}
		if i == k {
			sb.WriteString(fmt.Sprintf("<strong>%d</strong> ", i))
		} else {
			sb.WriteString(fmt.Sprintf(`<a href="%s">%s%d</a> `, pagerURL(style, i), label, i))
		}
	}
	if k < n {
		sb.WriteString(fmt.Sprintf(`<a href="%s">Next</a>`, pagerURL(style, k+1)))
	}
	sb.WriteString("</div>")
	return sb.String()
}

func pagerURL(style string, i int) string {
	switch style {
	case "path":
		return fmt.Sprintf("/story/view/%d", i)
	case "abs":
		return fmt.Sprintf("https://example.com/story/view?pg=%d", i)
	case "file":
		return fmt.Sprintf("story-%d.html", i)
	default:
		return fmt.Sprintf("?pg=%d", i)
	}
}

func marked(g *docGen, words int) string {
	cls := g.pick("sidebar", "footer", "menu", "banner", "related", "sponsor", "popup", "social")
	switch g.pick("class", "id", "role") {
	case "id":
		return fmt.Sprintf(`<div id="%s-box"><p>%s</p><p>%s</p></div>`, cls, g.words(words/2), g.words(words-words/2))
	case "role":
		return fmt.Sprintf(`<div role="%s"><p>%s</p></div>`, g.pick("navigation", "complementary", "menu", "dialog"), g.words(words))
	default:
		return fmt.Sprintf(`<div class="%s"><p>%s</p><p>%s</p></div>`, cls, g.words(words/2), g.words(words-words/2))
	}
}

func ogHead(g *docGen) string {
	return `<meta property="og:title" content="Og Title ` + g.words(2) + `"><meta property="og:type" content="article">` +
		`<meta property="og:url" content="https://example.com/og"><meta property="og:image" content="https://example.com/og.png">` +
		`<meta property="og:description" content="og desc"><meta property="article:author" content="Og Author"><meta property="article:author" content="Og Second"><meta property="article:author" content="Og Author"><meta property="article:author" content="Og Third">`
}

func schemaBody(g *docGen) string {
	return `<div itemscope itemtype="http://schema.org/Article"><h2 itemprop="headline">Schema Headline ` + g.words(2) + `</h2>` +
		`<span itemprop="author" itemscope itemtype="http://schema.org/Person"><span itemprop="name">Schema Person</span></span>` +
		`<img itemprop="image" src="/i/schema.png"><p itemprop="articleBody">` + g.words(40) + `</p></div>`
}

var siteStyles = []string{"color: #1b5e20", "color:#444", "font-size: 90%"}

// richDoc renders template id as a full page.
func richDoc(id int, g *docGen) string {
	r := g.rng
	// words differ from document to document, so that two pages sharing a piece of markup
	// (the same <title>, the same pager) still differ in everything else
	g.tok = (id % 997) * 1000
	var head, body strings.Builder
	pageTitle := g.words(3) + " - " + g.words(2)
	head.WriteString("<title>" + pageTitle + "</title>")
	styled := false
	story := func(n int) string {
		var sb strings.Builder
		for i := 0; i < n; i++ {
			sb.WriteString(g.para(40 + r.Intn(20)))
		}
		if !styled {
			// the same few inline styles all over a site, on boxes in one page and on phrases in the next
			styled = true
			sb.WriteString(`<div style="` + siteStyles[id%3] + `">` + g.para(30) + `</div><p>` + g.words(20) +
				` <span style="` + siteStyles[(id+1)%3] + `">` + g.words(3) + `</span> ` + g.words(10) +
				// links inside the story that name only a query or only a fragment
				` <a href="?view=print">` + g.words(1) + `</a> ` + g.words(5) + ` <a href="#fn1">` + g.words(1) + `</a> ` + g.words(5) +
				// ... and one that is relative to the directory of the page (the same reference on every page of the site)
				` <a href="part-2.html">` + g.words(1) + `</a> ` + g.words(3) + ` <a href="../archive/index.html">` + g.words(1) + `</a></p>`)
		}
		return sb.String()
	}
	switch id % nRichDocs {
	case 0: // every mutating path
		body.WriteString(g.linkCluster(4) + "<div>" + story(2))
		body.WriteString(`<p>` + g.words(20) + ` <a href="javascript:void(0)">` + g.words(2) + `</a> ` + g.words(20) +
			` <font color="red">` + g.words(3) + `</font> <a href="javascript:x()"><b>` + g.words(2) + `</b></a></p>`)
		body.WriteString(`<figure><img src="data:image/gif;base64,R0lGOD"><noscript><img src="/i/m1.png"></noscript><figcaption>` + g.words(5) + `</figcaption></figure>`)
		body.WriteString(`<picture><source srcset="/i/m2-s.webp"><span>x</span></picture>`)
		body.WriteString(`<figure><img src="/i/m6.png"><figcaption ` + g.pick("hidden", `style="display:none"`, "") + `><a href="/c">` + g.words(3) + `</a></figcaption></figure>`)
		body.WriteString(`<img data-src="/i/m3.png" src="data:image/gif;base64,R0lGOD">`)
		body.WriteString(`<ul><li>` + g.words(8) + `</li><li>` + g.words(9) + `<ol><li>` + g.words(4) + `</li></ol></li></ul>`)
		body.WriteString(`<table><tr><th>` + g.words(1) + `</th><th>` + g.words(1) + `</th></tr><tr><td>` + g.words(2) + `<img src="/i/m4.png"></td><td>` + g.words(2) + `</td></tr></table>`)
		body.WriteString(`<table><tr><td>` + g.words(12) + `</td><td>` + g.words(12) + `</td></tr></table>`)
		body.WriteString(`<video src="/v/m5.mp4" poster="/v/m5.jpg"><source src="/v/m5.webm"></video>`)
		body.WriteString(story(1) + "</div>" + g.linkCluster(3))
	case 1: // query-parameter pager + next/prev words
		body.WriteString("<div>" + story(3) + "</div>" + pagerHTML(g, "query", 5, 2) + g.linkCluster(3))
	case 2: // marked subtrees, plenty of content (pass 1 suffices)
		body.WriteString(marked(g, 60) + "<div>" + story(12) + "</div>" + marked(g, 40))
	case 3: // marked subtrees, little content (falls back to pass 2)
		body.WriteString(marked(g, 120) + "<div>" + story(3) + "</div>" + marked(g, 90))
	case 4: // embeds
		body.WriteString("<div>" + story(2) + `<iframe src="https://www.youtube.com/embed/m1"></iframe>` + story(1) +
			`<iframe src="https://player.vimeo.com/video/m2"></iframe><blockquote class="twitter-tweet"><p>` + g.words(6) +
			`</p><a href="https://twitter.com/u/status/m3">t</a></blockquote><iframe src="https://ads.example.net/x"></iframe>` + story(1) + "</div>")
	case 5: // markup in head and body
		head.WriteString(ogHead(g) + `<meta name="author" content="Ie Author"><meta name="title" content="Ie Title">`)
		body.WriteString(schemaBody(g) + "<div>" + story(3) + "</div>")
	case 6: // images: lead image candidates, srcset, lazy
		// a hero image above the headline, the headline repeating the page title
		body.WriteString(`<img src="/i/m1.png" width="800" height="450"><h1>` + pageTitle + `</h1><figure><img src="/i/m2.png" srcset="/i/m2-2x.png 2x"><figcaption>` + g.words(4) + `</figcaption></figure>` +
			"<div>" + story(1) + `<img src="/i/m3.png" srcset="/i/m3-a.png 480w, /i/m3-b.png 800w">` + story(2) + `<span class="lazy-image-placeholder" data-src="/i/m4.png"></span>` +
			// several lazy-loading attributes on one image: the first of the documented order wins, every time
			`<img data-url="/i/m5c.png" data-original="/i/m5b.png" data-src="/i/m5a.png" src="data:image/gif;base64,R0lGOD">` +
			`<img datasrc="/i/m6b.png" data-url="/i/m6c.png" datasrcset="/i/m6e.png 2x" data-srcset="/i/m6d.png 2x">` + story(1) +
			// lazy images every reader of the page is interested in: captioned, or large
			`<figure><img src="data:image/gif;base64,R0lGOD" data-src="/i/m7.png"><figcaption>` + g.words(5) + `</figcaption></figure>` +
			`<img width="800" height="450" src="/i/blank.gif" data-original="/i/m8.png" data-srcset="/i/m8-2x.png 2x">` + story(1) + `</div>`)
	case 7: // tables: nested, roles, editable
		body.WriteString("<div>" + story(2) + `<table role="grid"><tr><td>` + g.words(2) + `</td><td>` + g.words(2) + `</td></tr><tr><td>` + g.words(2) + `</td><td><table><tr><td>` + g.words(2) + `</td></tr></table></td></tr></table>` +
			// column groups plus a header row whose corner cell is empty
			`<table><colgroup><col><col></colgroup><tr><th></th><th>` + g.words(1) + `</th></tr><tr><td>` + g.words(2) + `</td><td>` + g.words(2) + `</td></tr></table>` +
			`<div contenteditable="true"><table><caption>` + g.words(2) + `</caption><tr><td>a</td><td>b</td></tr><tr><td>c</td><td>d</td></tr></table></div>` + story(1) + "</div>")
	case 8: // path pager, off-site and odd links
		body.WriteString("<div>" + story(3) + "</div>" + pagerHTML(g, "path", 4, 3) +
			`<a href="http://other.example.org/story/view/9">9</a> <a href="mailto:x@example.com">mail</a> <a href="javascript:go(2)">2</a> <a href="">empty</a> <a href="#top">top</a> <a href="http://%zz/">bad</a>` +
			`<a href="http://&#570;/">home 2</a> <a href="http://&#570;/story/view/4">next page 4</a> <a href="http://&#11365;/story/view/5">5</a> <a href="HTTP://EXAMPLE.COM/story/view/6">6</a> <a href="//example.com/story/view/7">7</a>`)
	case 9: // nearly empty / a single numeric link / javascript placeholders in a pager
		body.WriteString(g.pick("", "<p></p>", "<div><br></div>", g.words(3), `<a href="/story/view/2">2</a>`,
			`<div>1 <a href="javascript:go(2)">2</a> <a href="?pg=3">3</a> <a href="?pg=4">4</a></div>`,
			`<div><a href="/story/view/1">1</a> <a href="/story/view/3">3</a> <a href="/story/view/5">5</a></div>`))
	case 10: // social / byline / wiki edit links
		body.WriteString(`<div class="sharing"><a href="/s">` + g.words(2) + `</a></div><span class="byline">` + g.words(3) + `</span><div>` + story(2) +
			`<h2>` + g.words(3) + `<span class="mw-editsection">[<a href="/w/index.php?title=X&amp;action=edit&amp;section=1">edit</a>]</span></h2>` + story(2) + "</div>")
	case 11: // file-suffix pager on absolute URLs, page number algo friendly
		body.WriteString("<div>" + story(3) + "</div>" + pagerHTML(g, "abs", 6, 1))
	case 12: // headings, pre, blockquote, hidden, forms
		body.WriteString("<div><h1>" + g.words(5) + "</h1>" + story(1) + "<pre>" + g.words(10) + "</pre><blockquote><p>" + g.words(15) + "</p></blockquote>" +
			`<div hidden>` + g.words(5) + `</div><form><input type="text" value="v"><button>` + g.words(1) + `</button></form>` + story(2) + "</div>")
	case 13: // OpenGraph under a custom prefix declared by the document
		pfx := g.pick("zqog", "news", "o")
		decl := g.pick(`<html prefix="`+pfx+`: http://ogp.me/ns#">`, `<html xmlns:`+pfx+`="http://ogp.me/ns#">`,
			`<html lang="en" dir="ltr" xmlns="http://www.w3.org/1999/xhtml" xmlns:`+pfx+`="http://ogp.me/ns#" class="zqroot">`)
		return "<!DOCTYPE html>" + decl + "<head><title>" + g.words(3) + `</title><meta property="` + pfx + `:title" content="Custom Og ` + g.words(2) +
			`"><meta property="` + pfx + `:type" content="article"><meta property="` + pfx + `:url" content="https://example.com/c"><meta property="` + pfx +
			`:image" content="https://example.com/c.png"></head><body><div>` + story(3) + "</div></body></html>"
	case 14: // schema.org items with missing pieces
		body.WriteString(`<div itemscope itemtype="http://schema.org/ImageObject"><meta itemprop="representativeOfPage" content="true"><span itemprop="caption">` + g.words(2) + `</span></div>` +
			`<div itemscope itemtype="http://schema.org/Article"><div itemprop="associatedMedia" itemscope itemtype="http://schema.org/ImageObject"><span itemprop="name">n</span></div>` +
			`<span itemprop="author" itemscope itemtype="http://schema.org/Person"></span><span itemprop="publisher" itemscope itemtype="http://schema.org/Organization"></span>` +
			`<div itemprop="image" itemscope itemtype="http://schema.org/ImageObject"><meta itemprop="width" content="x"></div></div>` +
			`<div itemscope itemtype="http://schema.org/Unknown"><span itemprop="headline">h</span></div><div itemscope><span itemprop="name">bare</span></div>` +
			"<div>" + story(3) + "</div>")
	case 15: // two strong next links, the later one stronger; two equally strong ones to different pages
		body.WriteString(`<div><a class="pagination" href="?pg=4">Next</a></div><div>` + story(3) + `</div><div><a class="pagination" href="?pg=3">Next</a> ` +
			`<a href="?pg=1">Prev</a></div>`)
	case 16: // ties: equally scored next / prev links to different pages
		body.WriteString(`<div>` + story(3) + `</div><div><a href="?pg=5">Next</a> <a href="?pg=7">Next</a> <a href="?pg=9">next</a> <a href="?pg=0">Prev</a> <a href="?pg=11">Previous</a></div>` +
			`<div><a href="/story/view/12">12</a> <a href="/story/view/13">13</a> <a href="?pg=12">12</a> <a href="?pg=13">13</a></div>`)
	case 17: // many pages of one site share the <title>; only headings and body differ
		return "<!DOCTYPE html><html><head><title>" + g.pick("Zq Daily", "Zq Daily", "The Zq Daily Blog: News") + "</title></head><body><div><h1>" +
			g.words(5) + "</h1><h2>" + g.words(3) + "</h2>" + story(3) + "</div></body></html>"
	case 18: // pager whose links repeat a query key and carry more parameters than the page URL
		body.WriteString("<div>" + story(3) + `</div><div><a href="/story/view?tag=go&amp;tag=web&amp;pg=1">1</a> <a href="/story/view?tag=go&amp;tag=web&amp;pg=2">2</a> ` +
			`<a href="/story/view?tag=go&amp;tag=web&amp;pg=3">3</a> <a href="/story/view?pg=4&amp;pg=5">4</a> <a href="/story/view?a=1&amp;pg=5&amp;b=2&amp;b=3">5</a></div>`)
	case 19: // a pager with gaps on path-component URLs: several pattern candidates share the number list
		body.WriteString("<div>" + story(3) + `</div><div><a href="/zqt/12/p/1">1</a> <a href="/zqt/12/p/3">3</a> <a href="/zqt/12/p/5">5</a></div>`)
	case 20: // the document names its own base URL; paging links resolve under it
		head.WriteString(`<base href="https://example.com/story/">`)
		body.WriteString("<div>" + story(3) + `</div><div><a href="part/1">1</a> <strong>2</strong> <a href="part/3">3</a> <a href="part/3">Next</a></div>`)
	case 21: // UTF-8 text with soft hyphens, decomposed accents and umlauts (what dom.Parse normalises)
		u := func(n int) string {
			ws := []string{"Stra\u00dfen\u00adbahn", "Cafe\u0301", "u\u0308ber", "na\u00efve", "Gr\u00fc\u00dfe", "re\u0301sume\u0301", "Donau\u00addampf\u00adschiff", "\u00e9t\u00e9"}
			var sb strings.Builder
			for i := 0; i < n; i++ {
				sb.WriteString(ws[r.Intn(len(ws))] + " " + g.words(1) + " ")
			}
			return sb.String()
		}
		head.WriteString(`<meta charset="utf-8">`)
		body.WriteString("<div><h1>" + u(3) + "</h1><p>" + u(40) + "</p><p>" + u(35) + "</p><p>" + u(30) + "</p></div>")
	case 22: // odd <title> strings: the title heuristics cut by index of separators
		w := func(n int) string { return g.words(n) }
		titles := []string{
			w(2) + "\uff1a" + w(3) + " " + w(2), // full-width colon only
			w(1) + "\uff1a " + w(2) + " " + w(2) + " \uff1a" + w(1),
			w(3) + ":", ":" + w(3), ": " + w(3) + " " + w(1), w(2) + " : " + w(2) + " : " + w(2),
			" - " + w(3), w(3) + " - ", " | ", "-", "|" + w(2) + "|" + w(2) + "|", w(2) + " \u2014 " + w(3), w(2) + " \u00bb", "\u00bb " + w(4),
			w(1) + " > > " + w(1), w(2) + ` \ ` + w(2) + " / " + w(1), "", "   ", w(1), w(2),
			strings.Repeat(w(1)+" ", 40), strings.Repeat("\u0442\u0435\u0441\u0442 ", 35) + "- " + w(2),
			w(2) + ":" + w(2) + " " + w(2) + " " + w(1), w(4) + " -" + w(2), w(2) + "- " + w(3), "\u3010" + w(2) + "\u3011" + w(3) + "\uff5c" + w(2),
		}
		t := titles[(id/nRichDocs+r.Intn(3))%len(titles)]
		h := g.pick("", "<h1>"+t+"</h1>", "<h1>"+w(4)+"</h1>", "<h2>"+t+"</h2>")
		return "<!DOCTYPE html><html><head><title>" + t + "</title></head><body><div>" + h + story(3) + "</div></body></html>"
	case 23: // odd pagers: link shapes that stress the slicing and number parsing of the page-pattern code
		sets := [][]string{
			{"/y/x/abc.html", "/y/x/2/y/x/abc.html"},                        // two pages only; pattern prefix and suffix overlap in the first page
			{"/y/x/abc.html", "/y/x/2/y/x/abc.html", "/y/x/3/y/x/abc.html"}, // the same with three pages
			{"/story/view/1", "/story/view/99999999999999999999", "/story/view/3"},
			{"/story/view/001", "/story/view/002", "/story/view/003"},
			{"/1", "/2", "/3"},
			{"/story/view?pg=", "/story/view?pg=2", "/story/view?pg=3&pg="},
			{"/story/view?pg=%32", "/story/view?pg=3", "/story/view?pg=4"},
			{"/story/view-1.html", "/story/view-2.html/", "/story/view-3.html?x=1#f"},
			{"/story/2014/07/15", "/story/2014/07/16", "/story/2014/07/17"},
			{"/story/view/2/", "/story/view/2/2/", "/story/view/2/2/2/"},
			{"/story/v1ew/p2", "/story/v1ew/p3", "/story/v1ew/p4"},
			{"/story/view/-1", "/story/view/-2", "/story/view/+3"},
			{"/story/view/1.5", "/story/view/2.5", "/story/view/3.5"},
			{"/a/b/c/d/e/f/g/h/2", "/a/b/c/d/e/f/g/h/3", "/a/2"},
			{"/zqt/12/p/1", "/zqt/13/p/2", "/zqt/14/p/3"},
		}
		set := sets[(id/nRichDocs)%len(sets)]
		var sb strings.Builder
		for i, h := range set {
			if i == 1 && r.Intn(2) == 0 {
				sb.WriteString(fmt.Sprintf("<span>%d</span> ", i+1))
			}
			sb.WriteString(fmt.Sprintf(`<a href="%s">%d</a> `, h, i+1))
		}
		next := `<a href="` + set[len(set)-1] + `">Next</a>`
		if r.Intn(2) == 0 {
			next = ""
		}
		body.WriteString("<div>" + story(3) + "</div><div>" + sb.String() + next + `</div>`)
	case 24: // a pager whose numbers fall into two runs of equal length (1 2 3 ... 8 9 10)
		lo := 1 + r.Intn(2)
		var sb strings.Builder
		for i := 0; i < 3; i++ {
			n := lo + i
			if i == 1 {
				sb.WriteString(fmt.Sprintf("%d ", n))
			} else {
				sb.WriteString(fmt.Sprintf(`<a href="/story/view?pg=%d">%d</a> `, n, n))
			}
		}
		sb.WriteString("&hellip; ")
		for i := 0; i < 3; i++ {
			n := lo + 7 + i
			sb.WriteString(fmt.Sprintf(`<a href="/story/view?pg=%d">%d</a> `, n, n))
		}
		body.WriteString("<div>" + story(3) + "</div><div>" + sb.String() + "</div>")
	case 25: // a two-part article: one plain number next to one numbered link (the detector fills in the page URL itself)
		pg := g.pick(`<a href="/story/view?pg=1">1</a> 2`, `1 <a href="/story/view?pg=2">2</a>`, `<a href="/story/view/1">1</a> <b>2</b>`,
			`<span>1</span> <a href="/story/view/2">2</a>`)
		body.WriteString("<div>" + story(3) + "</div><div>" + pg + "</div>")
	case 27: // elements one rarely meets: obsolete lists, disclosure widgets, ruby, math, presentational left-overs
		w := g.words
		body.WriteString("<div>" + story(2) +
			`<menu><li>` + w(6) + `</li><li>` + w(5) + `</li></menu><dir><li>` + w(4) + `</li></dir>` +
			`<details><summary>` + w(3) + `</summary><p>` + w(20) + `</p></details><dialog open><p>` + w(8) + `</p></dialog>` +
			`<center>` + w(12) + `</center><p>` + w(10) + ` <ruby>` + w(1) + `<rp>(</rp><rt>` + w(1) + `</rt><rp>)</rp></ruby> <big>` + w(2) + `</big> <nobr>` + w(2) + `</nobr> <bdi>` + w(1) + `</bdi> <wbr>` + w(8) + `</p>` +
			`<math><mi>x</mi><mo>=</mo><mn>2</mn></math><fieldset><legend>` + w(2) + `</legend>` + w(6) + `</fieldset>` +
			`<dl><dt>` + w(2) + `</dt><dd>` + w(12) + `</dd></dl><template><p>` + w(5) + `</p></template><marquee>` + w(4) + `</marquee>` +
			`<p>` + w(6) + ` <meter value="0.6">` + w(1) + `</meter> <progress value="3" max="9"></progress> <output>` + w(1) + `</output> <data value="7">` + w(1) + `</data> <time datetime="2014-07-15">` + w(2) + `</time></p>` +
			`<xmp>` + w(4) + `</xmp><listing>` + w(3) + `</listing><hgroup><h2>` + w(3) + `</h2><h3>` + w(3) + `</h3></hgroup><table></table><table><caption>` + w(2) + `</caption></table>` +
			story(2) + "</div>")
	default: // a random abstract document through the doc-family concretiser
		forest := randomForest(r, 14)
		return g.page(forest, docPlaces[r.Intn(len(docPlaces))])
	}
	// how the bytes start: usually a doctype - sometimes an XML declaration (XHTML), a byte order mark, white space,
	// or nothing at all before the first element
	start := []string{"<!DOCTYPE html>", "<!DOCTYPE html>", "<!DOCTYPE html>", `<?xml version="1.0" encoding="UTF-8"?>` + "\n<!DOCTYPE html>",
		"\ufeff<!DOCTYPE html>", "\n\n  <!DOCTYPE html>", ""}[(id/nRichDocs)%7]
	return start + "<html><head>" + head.String() + "</head><body>" + body.String() + "</body></html>"
}

// randomForest draws an abstract forest over the doc-family alphabet.
func randomForest(r *rand.Rand, maxNodes int) []*cnode {
	containers := []string{"P", "DIV", "H", "UL", "BQ", "PRE", "DT", "LT", "FIG", "FIGL", "HID", "TW"}
	leaves := []string{"T", "t", "IMG", "VID", "EMB", "LNK", "BR", "SKS", "SKF", "CMT"}
	inl := []string{"T", "t", "INL", "A", "AJ", "FONT", "BR", "HIN"}
	n := 0
	var mk func(k string, depth int) *cnode
	mk = func(k string, depth int) *cnode {
		n++
		c := &cnode{k: k, idx: n}
		if n >= maxNodes || depth > 4 {
			return c
		}
		kids := 0
		switch k {
		case "P", "H", "PRE", "INL", "A", "AJ", "FONT", "HIN", "FIG", "FIGL":
			kids = 1 + r.Intn(3)
			for i := 0; i < kids; i++ {
				ck := inl[r.Intn(len(inl))]
				if k != "P" && (ck == "HIN" || ck == "AJ" || ck == "FONT" || ck == "A") {
					ck = "T"
				}
				c.kids = append(c.kids, mk(ck, depth+1))
			}
		case "UL":
			kids = 1 + r.Intn(3)
			for i := 0; i < kids; i++ {
				li := mk("LI", depth+1)
				li.kids = append(li.kids, mk([]string{"T", "P", "UL"}[r.Intn(3)], depth+2))
				c.kids = append(c.kids, li)
			}
		case "DIV", "BQ", "HID", "DT", "LT", "TW":
			kids = 1 + r.Intn(3)
			for i := 0; i < kids; i++ {
				var ck string
				if r.Intn(2) == 0 {
					ck = []string{"P", "T", "UL", "H"}[r.Intn(4)]
				} else {
					ck = leaves[r.Intn(len(leaves))]
				}
				if k == "TW" {
					ck = []string{"T", "t", "P"}[r.Intn(3)]
				}
				c.kids = append(c.kids, mk(ck, depth+1))
			}
		}
		return c
	}
	var forest []*cnode
	for n < maxNodes {
		var k string
		if r.Intn(3) > 0 {
			k = containers[r.Intn(len(containers))]
		} else {
			k = leaves[r.Intn(len(leaves))]
		}
		forest = append(forest, mk(k, 1))
	}
	return forest
}
