package main

import (
	"encoding/json"
	"fmt"
	nurl "net/url"
	"regexp"
	"strconv"
	"strings"

	"github.com/markusmobius/go-domdistiller/vtrace"
	"golang.org/x/net/html"
)

// The "PN" family: pagers as spec/PageNumber.tla reads them (items = numbers in plain
// text, numbered links over /zqs/x/y or /zqs/view/y, javascript: place holders, and
// everything else that breaks adjacency). The page is rendered, the page-number finder
// is run several times on it, the hook events of the detector (groups, candidates,
// best) are recorded, and every URL is mapped back to the abstract URL records of the
// specification. spec/trace/PNTrace.tla replays the run on the model and judges.

func init() { register("PN", runPN) }

type pnURL struct {
	K string `json:"k"`
	X int    `json:"x"`
	Y int    `json:"y"`
}

type pnItem struct {
	T string `json:"t"`
	N int    `json:"n"`
	U pnURL  `json:"u"`
}

type pnCase struct {
	Items []pnItem `json:"items"`
	Doc   pnURL    `json:"doc"`
}

// pnString renders an abstract URL; fam is the link family of the pager (it decides what "base" is).
func pnString(u pnURL, fam string) string {
	s := pnPlain(u, fam)
	if pnEsc {
		// the folder of the story has a name that is written with an escape: /zq%C3%A9s/
		s = strings.Replace(s, "/zqs", "/zq%C3%A9s", 1)
	}
	return s
}

// pnEsc: the URLs of this run carry a percent-escape in their first path segment (one run per process at a time).
var pnEsc = false

// pnUnesc maps the escaped folder name - however it is written - back to the plain one before a URL is read back.
func pnUnesc(s string) string {
	for _, f := range []string{"zq%C3%A9s", "zq%c3%a9s", "zq\u00e9s"} {
		s = strings.Replace(s, f, "zqs", 1)
	}
	s = strings.Replace(strings.Replace(s, "://zquser:pw@", "://", 1), "://zquser@", "://", 1)
	return s
}

func pnPlain(u pnURL, fam string) string {
	switch u.K {
	case "file":
		return fmt.Sprintf("https://%s/zqs/view-%d.html", pagerHost, u.Y)
	case "q":
		return fmt.Sprintf("https://%s/zqs/view?pg=%d", pagerHost, u.Y)
	case "q2":
		return fmt.Sprintf("https://%s/zqs/view?pg=%d&x=%d", pagerHost, u.X, u.Y)
	case "grid":
		return fmt.Sprintf("https://%s/zqs/%d/%d", pagerHost, u.X, u.Y)
	case "one":
		return fmt.Sprintf("https://%s/zqs/view/%d", pagerHost, u.Y)
	case "base":
		switch fam {
		case "grid":
			return "https://" + pagerHost + "/zqs"
		case "file":
			return "https://" + pagerHost + "/zqs/view.html"
		}
		return "https://" + pagerHost + "/zqs/view"
	case "js":
		return "javascript:go(1)"
	}
	return ""
}

var (
	rxPnGrid = regexp.MustCompile(`^https://example\.com/zqs/(\d+)/(\d+)$`)
	rxPnOne  = regexp.MustCompile(`^https://example\.com/zqs/view/(\d+)$`)
	rxPnFile = regexp.MustCompile(`^https://example\.com/zqs/view-(\d+)\.html$`)
	rxPnQ    = regexp.MustCompile(`^https://example\.com/zqs/view\?pg=(\d+)$`)
	rxPnQ2   = regexp.MustCompile(`^https://example\.com/zqs/view\?pg=(\d+)&x=(\d+)$`)
	rxPnPatA = regexp.MustCompile(`^https://example\.com/zqs/view\?pg=\[\*!\]&x=(\d+)$`)
	rxPnPatB = regexp.MustCompile(`^https://example\.com/zqs/view\?pg=(\d+)&x=\[\*!\]$`)
	rxPnPatX = regexp.MustCompile(`^https://example\.com/zqs/\[\*!\]/(\d+)$`)
	rxPnPatY = regexp.MustCompile(`^https://example\.com/zqs/(\d+)/\[\*!\]$`)
)

func pnAbstract(s string) pnURL {
	s = pnUnesc(s)
	if s == "" {
		return pnURL{K: "none"}
	}
	if strings.HasPrefix(strings.ToLower(s), "javascript:") {
		return pnURL{K: "js"}
	}
	if m := rxPnGrid.FindStringSubmatch(s); m != nil {
		x, _ := strconv.Atoi(m[1])
		y, _ := strconv.Atoi(m[2])
		return pnURL{K: "grid", X: x, Y: y}
	}
	if m := rxPnOne.FindStringSubmatch(s); m != nil {
		y, _ := strconv.Atoi(m[1])
		return pnURL{K: "one", Y: y}
	}
	if m := rxPnFile.FindStringSubmatch(s); m != nil {
		y, _ := strconv.Atoi(m[1])
		return pnURL{K: "file", Y: y}
	}
	if m := rxPnQ.FindStringSubmatch(s); m != nil {
		y, _ := strconv.Atoi(m[1])
		return pnURL{K: "q", Y: y}
	}
	if m := rxPnQ2.FindStringSubmatch(s); m != nil {
		x, _ := strconv.Atoi(m[1])
		y, _ := strconv.Atoi(m[2])
		return pnURL{K: "q2", X: x, Y: y}
	}
	if s == "https://"+pagerHost+"/zqs" || s == "https://"+pagerHost+"/zqs/view" || s == "https://"+pagerHost+"/zqs/view.html" {
		return pnURL{K: "base"}
	}
	return pnURL{K: "other"}
}

func pnPattern(s string) map[string]interface{} {
	s = pnUnesc(s)
	s = strings.ReplaceAll(s, "%5B%2A%21%5D", "[*!]") // the place holder is percent-encoded in query patterns
	if m := rxPnPatX.FindStringSubmatch(s); m != nil {
		k, _ := strconv.Atoi(m[1])
		return map[string]interface{}{"ax": "x", "key": k}
	}
	if m := rxPnPatY.FindStringSubmatch(s); m != nil {
		k, _ := strconv.Atoi(m[1])
		return map[string]interface{}{"ax": "y", "key": k}
	}
	if s == "https://"+pagerHost+"/zqs/view/[*!]" || s == "https://"+pagerHost+"/zqs/[*!]" {
		return map[string]interface{}{"ax": "v", "key": 0}
	}
	if s == "https://"+pagerHost+"/zqs/view-[*!].html" {
		return map[string]interface{}{"ax": "f", "key": 0}
	}
	if s == "https://"+pagerHost+"/zqs/view?pg=[*!]" {
		return map[string]interface{}{"ax": "q", "key": 0}
	}
	if m := rxPnPatA.FindStringSubmatch(s); m != nil {
		k, _ := strconv.Atoi(m[1])
		return map[string]interface{}{"ax": "qa", "key": k}
	}
	if m := rxPnPatB.FindStringSubmatch(s); m != nil {
		k, _ := strconv.Atoi(m[1])
		return map[string]interface{}{"ax": "qb", "key": k}
	}
	return map[string]interface{}{"ax": "other", "key": 0}
}

func pnPages(v interface{}) []map[string]interface{} {
	out := []map[string]interface{}{}
	l, _ := v.([]interface{})
	for _, e := range l {
		m, _ := e.(map[string]interface{})
		n, _ := m["n"].(int)
		out = append(out, map[string]interface{}{"n": n, "u": pnAbstract(fmt.Sprint(m["url"]))})
	}
	return out
}

func pnParam(v interface{}) map[string]interface{} {
	m, _ := v.(map[string]interface{})
	if m == nil || m["some"] != true {
		return map[string]interface{}{"some": false}
	}
	c, _ := m["c"].(int)
	d, _ := m["d"].(int)
	return map[string]interface{}{"some": true, "pat": pnPattern(fmt.Sprint(m["pattern"])), "pages": pnPages(m["pages"]),
		"formula": map[string]interface{}{"ok": m["formula"] == true, "c": c, "d": d}, "next": pnAbstract(fmt.Sprint(m["next"]))}
}

// pnHookEvents turns the detector's hook events into trace lines.
func pnHookEvents(run int, hooks []vtrace.Event) []Event {
	var evs []Event
	for _, h := range hooks {
		kv := hookKV(h)
		switch h.Name {
		case "PNGroup":
			sign, _ := kv["sign"].(int)
			evs = append(evs, Event{"ev": "PNGroup", "run": run, "sign": sign, "list": pnPages(kv["list"])})
		case "PNCand":
			evs = append(evs, Event{"ev": "PNCand", "run": run, "esc": pnEsc, "pat": pnPattern(fmt.Sprint(kv["pattern"])), "result": pnParam(kv["result"])})
		case "PNBest":
			evs = append(evs, Event{"ev": "PNBest", "run": run, "esc": pnEsc, "result": pnParam(kv["result"]), "multi": kv["multi"] == true})
		}
	}
	return evs
}

const pnRepeats = 8

func runPN(c Case, e *env) []Event {
	var p pnCase
	raw, _ := json.Marshal(c.P)
	if err := json.Unmarshal(raw, &p); err != nil || len(p.Items) == 0 {
		return []Event{{"ev": "Skip", "run": c.ID, "why": "bad case"}}
	}
	g := newDocGen(e.seed, c.ID)
	r := g.rng
	pnEsc = (c.ID+int(e.seed))%4 == 0
	fam := p.Doc.K
	for _, it := range p.Items {
		switch it.U.K {
		case "grid", "one", "file", "q", "q2":
			fam = it.U.K
		}
	}
	var parts []string
	for _, it := range p.Items {
		switch {
		case it.T != "num":
			parts = append(parts, pickS(r, `<span>`+g.words(2)+`</span>`, `<a href="/zqs/more">`+g.words(2)+`</a>`,
				fmt.Sprintf(`<a href="https://other.example.org/zqs/1/%d">%d</a>`, 1+r.Intn(3), 1+r.Intn(3)), `<b>`+g.words(1)+`</b>`))
		case it.U.K == "none":
			// a plain number always sits in an element of its own: one text node per number
			parts = append(parts, pickS(r, fmt.Sprintf(`<span>%d</span>`, it.N), fmt.Sprintf(`<b>%d</b>`, it.N), fmt.Sprintf(`<em>[%d]</em>`, it.N)))
		case it.U.K == "empty":
			parts = append(parts, fmt.Sprintf(`<a href="">%d</a>`, it.N))
		case it.U.K == "js":
			parts = append(parts, fmt.Sprintf(`<a href="%s">%d</a>`, pickS(r, "javascript:go(1)", "javascript:go(1)", "JavaScript:void(0)"), it.N))
		default:
			href := pnString(it.U, fam)
			if r.Intn(2) == 0 {
				href = strings.TrimPrefix(href, "https://"+pagerHost)
			}
			href = strings.ReplaceAll(href, "&", "&amp;")
			parts = append(parts, fmt.Sprintf(`<a href="%s">%s</a>`, href, pickS(r, fmt.Sprint(it.N), fmt.Sprintf("[%d]", it.N), fmt.Sprintf("(%d)", it.N))))
		}
	}
	pager := `<div>` + strings.Join(parts, pickS(r, " ", " | ", "\n")) + `</div>`
	page := pagerPage(g, pager)
	pageURL := pnString(p.Doc, fam)
	if pageURL != "" && !pnEsc {
		// the page URL as a browser hands it over: sometimes with a fragment, sometimes with user info
		// (user info only where every link of the pager is absolute: a relative link inherits it, and whether the
		// credentials belong to the "normalised target" of such a link is not something the property says)
		allAbs := true
		for _, part := range parts {
			if strings.Contains(part, `href="/`) || strings.Contains(part, `href="?`) {
				allAbs = false
			}
		}
		switch (c.ID + int(e.seed)) % 8 {
		case 1:
			pageURL += "#comments"
		case 2:
			if allAbs {
				pageURL = strings.Replace(pageURL, "https://", "https://zquser@", 1)
			}
		case 3:
			pageURL += "#top"
			if allAbs {
				pageURL = strings.Replace(pageURL, "https://", "https://zquser:pw@", 1)
			}
		}
	}
	if pageURL == "" {
		return []Event{{"ev": "Skip", "run": c.ID, "why": "no page url"}}
	}
	call := Event{"ev": "Call", "run": c.ID, "prop": e.prop, "items": p.Items, "doc": p.Doc}
	if showInputs {
		call["html"] = page
		call["pageurl"] = pageURL
	}
	evs := []Event{call}
	type ans struct{ Next, Prev pnURL }
	var first *ans
	distinct := []map[string]interface{}{}
	seen := map[ans]bool{}
	failed := false
	for i := 0; i < pnRepeats; i++ {
		doc, err := html.Parse(strings.NewReader(page))
		if err != nil {
			return []Event{{"ev": "Skip", "run": c.ID, "why": "unparseable"}}
		}
		out := applyTree(doc, OptSpec{URL: pageURL, Algo: 1})
		if ev, bad := outcomeEvent(c.ID, out); bad {
			return []Event{call, ev}
		}
		if out.err != nil || out.res == nil {
			failed = true
			break
		}
		a := ans{pnAbstract(out.res.PaginationInfo.NextPage), pnAbstract(out.res.PaginationInfo.PrevPage)}
		if i == 0 {
			first = &a
			evs = append(evs, pnHookEvents(c.ID, out.hooks)...)
		}
		if !seen[a] {
			seen[a] = true
			distinct = append(distinct, map[string]interface{}{"next": a.Next, "prev": a.Prev})
		}
	}
	obs := map[string]interface{}{"err": failed, "answers": distinct, "next": pnURL{K: "none"}, "prev": pnURL{K: "none"}}
	if first != nil {
		obs["next"], obs["prev"] = first.Next, first.Prev
		if first.Next.K != "none" {
			count("next_found")
		}
		if first.Prev.K != "none" {
			count("prev_found")
		}
	}
	if len(distinct) > 1 {
		count("answers_differ")
	}
	count("pn_runs")
	_ = nurl.Parse
	return append(evs, Event{"ev": "Return", "run": c.ID, "obs": obs})
}
