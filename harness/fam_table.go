package main

import (
	"fmt"
	"math/rand"
	"strings"

	"golang.org/x/net/html"
)

// The "table" family (C18): a feature vector (spec/TableClass.tla: Features) becomes
// a real <table> built exactly like TableClass!Build describes, placed after a
// retained paragraph. Observation: the classifier's verdict and reason (hook events)
// and whether the table was kept whole in the output.

func init() { register("C18", runTable) }

type tableFeat struct {
	Editable   bool   `json:"editable"`
	Role       string `json:"role"`
	DescRole   string `json:"descRole"`
	Datatable0 bool   `json:"datatable0"`
	Nested     bool   `json:"nested"`
	Rows       int    `json:"rows"`
	Cols       int    `json:"cols"`
	Short      bool   `json:"short"`
	LateWide   bool   `json:"latewide"`
	Span       bool   `json:"span"`
	EmptyRow   bool   `json:"emptyrow"`
	Header     string `json:"header"`
	CellAttr   string `json:"cellAttr"`
	Summary    bool   `json:"summary"`
	Object     string `json:"object"`
}

func featOf(c Case) tableFeat {
	return tableFeat{
		Editable: c.boolean("editable", false), Role: c.str("role", "none"), DescRole: c.str("descRole", "none"),
		Datatable0: c.boolean("datatable0", false), Nested: c.boolean("nested", false), Rows: c.num("rows", 2),
		Cols: c.num("cols", 2), Short: c.boolean("short", false), LateWide: c.boolean("latewide", false), Span: c.boolean("span", false), EmptyRow: c.boolean("emptyrow", false), Header: c.str("header", "none"),
		CellAttr: c.str("cellAttr", "none"), Summary: c.boolean("summary", false), Object: c.str("object", "none"),
	}
}

func pickS(r *rand.Rand, xs ...string) string { return xs[r.Intn(len(xs))] }

func caseMix(r *rand.Rand, s string) string {
	if r.Intn(4) == 0 {
		return strings.ToUpper(s)
	}
	return s
}

// buildTable renders the table of TableClass!Build(f).
func buildTable(f tableFeat, g *docGen) string {
	r := g.rng
	type cell struct {
		th    bool
		attrs string
		inner string
	}
	rows := make([][]*cell, f.Rows)
	var tds []*cell
	shortApplies := f.Short && f.Cols > 1 && f.Rows >= 3
	lateWide := f.LateWide && !f.Short && f.Cols > 1 && f.Rows >= 2
	for i := 0; i < f.Rows; i++ {
		n := f.Cols
		if shortApplies && i == f.Rows-1 {
			n--
		}
		if lateWide && i < f.Rows-1 {
			n = 1
		}
		span := f.Span && !f.Short && !f.LateWide && f.Cols > 2
		if span {
			n--
		}
		if f.EmptyRow && !f.Short && !f.LateWide && !f.Span && !f.Nested && (f.Rows >= 3 || (f.Rows == 2 && f.Header != "th")) && i == f.Rows-1 {
			continue // the last row has no cell at all
		}
		if f.Header == "rowth" {
			// a header cell in front of every row (key / value tables): columns are counted in td cells
			rows[i] = append(rows[i], &cell{th: true, inner: g.words(1)})
		}
		for j := 0; j < n; j++ {
			c := &cell{th: f.Header == "th" && i == 0, inner: g.words(1)}
			if span && j == 0 {
				c.attrs = ` colspan="2"`
			}
			rows[i] = append(rows[i], c)
			if !c.th {
				tds = append(tds, c)
			}
		}
	}
	if shortApplies && r.Intn(2) == 0 {
		// the short last row is often short because one of its cells spans two columns: the row is as wide as the
		// others then, and the table has the same number of columns and of cells as without the attribute
		row := rows[f.Rows-1]
		row[len(row)-1-r.Intn(f.Cols-1)].attrs += pickS(r, ` colspan="2"`, ` colspan="2"`, ` colspan=" 2"`, ` COLSPAN="2"`)
	} else if len(tds) > 0 && r.Intn(4) == 0 {
		tds[r.Intn(len(tds))].attrs += pickS(r, ` colspan="1"`, ` colspan="0"`, ` colspan=""`, ` rowspan="1"`)
	}
	if len(tds) > 0 {
		first, last := tds[0], tds[len(tds)-1]
		switch f.CellAttr {
		// the attribute counts, whatever its value - also none at all
		case "abbr":
			first.attrs += pickS(r, ` abbr="zqa"`, ` abbr="zqa"`, ` abbr=""`)
		case "headers":
			first.attrs += pickS(r, ` headers="zqh"`, ` headers="zqh"`, ` headers=""`, ` headers`)
		case "scope":
			first.attrs += pickS(r, ` scope="col"`, ` scope="row"`, ` scope=""`, ` scope`)
		case "loneAbbr":
			first.inner = "<abbr>" + first.inner + "</abbr>"
		}
		descRole := ""
		switch f.DescRole {
		case "tableRole":
			descRole = ` role="` + caseMix(r, pickS(r, "gridcell", "columnheader", "rowheader", "row", "rowgroup")) + `"`
		case "landmark":
			descRole = ` role="` + caseMix(r, pickS(r, "main", "search", "banner", "contentinfo", "form", "application")) + `"`
		}
		if f.Nested && descRole != "" && r.Intn(2) == 0 {
			// the descendant carrying the role is the nested table element itself
			last.inner += "<table" + descRole + "><tr><td>" + g.words(1) + "</td></tr></table>"
		} else {
			last.attrs += descRole
			if f.Nested {
				last.inner += "<table><tr><td>" + g.words(1) + "</td></tr></table>"
			}
		}
		switch f.Object {
		case "embed":
			last.inner += `<embed src="/o/x.swf">`
		case "object":
			last.inner += `<object data="/o/x.swf"></object>`
		case "applet":
			last.inner += `<applet></applet>`
		case "iframe":
			last.inner += `<iframe src="https://frames.example.org/f1"></iframe>`
		}
	}
	var sb strings.Builder
	sb.WriteString(`<table id="zqtable"`)
	switch f.Role {
	case "presentation":
		sb.WriteString(` role="` + caseMix(r, "presentation") + `"`)
	case "grid", "treegrid":
		sb.WriteString(` role="` + caseMix(r, f.Role) + `"`)
	case "landmark":
		sb.WriteString(` role="` + caseMix(r, pickS(r, "main", "search", "banner", "contentinfo", "form", "application")) + `"`)
	case "other":
		sb.WriteString(` role="` + pickS(r, "list", "group", "table", "img") + `"`)
	}
	if f.Datatable0 {
		sb.WriteString(` datatable="0"`)
	}
	if f.Summary {
		sb.WriteString(pickS(r, ` summary="zqs summary"`, ` summary="zqs summary"`, ` summary=""`, ` summary`))
	}
	sb.WriteString(">")
	switch f.Header {
	case "th":
		// an empty caption changes nothing: the header cells alone make it a data table
		if r.Intn(3) == 0 {
			sb.WriteString(pickS(r, "<caption></caption>", "<caption> </caption>", "<caption>\n\t</caption>"))
		}
	case "caption":
		sb.WriteString("<caption>" + g.words(2) + "</caption>")
	case "colgroup":
		sb.WriteString("<colgroup></colgroup>")
	case "col":
		sb.WriteString("<col>")
	}
	for i, row := range rows {
		open, close := "", ""
		if f.Header == "thead" && i == 0 {
			open, close = "<thead>", "</thead>"
		}
		if f.Header == "tfoot" && i == len(rows)-1 {
			open, close = "<tfoot>", "</tfoot>"
		}
		sb.WriteString(open + "<tr>")
		for _, c := range row {
			tag := "td"
			if c.th {
				tag = "th"
			}
			sb.WriteString("<" + tag + c.attrs + ">" + c.inner + "</" + tag + ">")
		}
		sb.WriteString("</tr>" + close)
	}
	sb.WriteString("</table>")
	t := sb.String()
	if f.Editable {
		t = `<div contenteditable="` + caseMix(r, "true") + `">` + t + `</div>`
	}
	return t
}

var tablePlaces = []string{"body", "div", "li", "ltcell"}

func placeTable(t, place string, g *docGen) string {
	switch place {
	case "div":
		t = "<div><section>" + t + "</section></div>"
	case "li":
		t = "<ul><li>" + t + "</li></ul>"
	case "ltcell":
		if i := strings.Index(t, ">"); strings.HasPrefix(t, `<div contenteditable=`) && strings.HasSuffix(t, "</div>") && g.rng.Intn(2) == 0 {
			// the editable area lies above the wrapper table, not between it and the tested table
			open, inner := t[:i+1], t[i+1:len(t)-len("</div>")]
			t = open + `<table id="zqwrap"><tr><td>` + inner + `</td></tr></table></div>`
			break
		}
		t = `<table id="zqwrap"><tr><td>` + t + `</td></tr></table>`
	}
	return "<!DOCTYPE html><html><head><title>" + g.words(5) + "</title></head><body>" +
		g.para(70) + g.para(60) + t + g.para(65) + "</body></html>"
}

// tableMeasures counts what any reading of "rows / columns / cells" agrees on for
// the generated tables: tr elements, td cells per tr, td cells (all of the tested
// table only, nested tables excluded).
func tableMeasures(doc *html.Node) map[string]int {
	var tbl *html.Node
	var find func(n *html.Node)
	find = func(n *html.Node) {
		if tbl != nil {
			return
		}
		if n.Type == html.ElementNode && n.Data == "table" {
			if id, _ := attr(n, "id"); id == "zqtable" {
				tbl = n
				return
			}
		}
		for c := n.FirstChild; c != nil; c = c.NextSibling {
			find(c)
		}
	}
	find(doc)
	m := map[string]int{"tr": 0, "maxtd": 0, "td": 0, "th": 0}
	if tbl == nil {
		return m
	}
	var rec func(n *html.Node, depth int)
	rec = func(n *html.Node, depth int) {
		for c := n.FirstChild; c != nil; c = c.NextSibling {
			if c.Type != html.ElementNode {
				continue
			}
			if c.Data == "table" {
				continue
			}
			if c.Data == "tr" {
				m["tr"]++
				cnt := 0
				for d := c.FirstChild; d != nil; d = d.NextSibling {
					if d.Type == html.ElementNode && d.Data == "td" {
						cnt++
						m["td"]++
					}
					if d.Type == html.ElementNode && d.Data == "th" {
						m["th"]++
					}
				}
				if cnt > m["maxtd"] {
					m["maxtd"] = cnt
				}
			}
			rec(c, depth+1)
		}
	}
	rec(tbl, 0)
	return m
}

func runTable(c Case, e *env) []Event {
	f := featOf(c)
	g := newDocGen(e.seed, c.ID)
	place := c.str("place", "")
	if place == "" {
		place = tablePlaces[(c.ID+int(e.seed))%len(tablePlaces)]
	}
	page := placeTable(buildTable(f, g), place, g)
	doc, err := html.Parse(strings.NewReader(page))
	if err != nil {
		return []Event{{"ev": "Skip", "run": c.ID, "why": "unparseable"}}
	}
	opt := OptSpec{Skip: true}
	if c.ID%8 == 0 {
		opt.Log = (c.ID / 8) % 16
	}
	call := Event{"ev": "Call", "run": c.ID, "prop": e.prop, "f": f, "place": place, "measured": tableMeasures(doc)}
	if showInputs {
		call["html"] = page
	}
	// first token of the tested table, to find it in the output
	chains, urls := newInterner(), newInterner()
	src := refAbstract(doc, chains)
	out := applyTree(doc, opt)
	if ev, bad := outcomeEvent(c.ID, out); bad {
		return []Event{call, ev}
	}
	obs := project(out.res, out.err, src, chains, urls)
	hookType, hookReason, visited := "none", "none", false
	lastReason := ""
	for _, h := range out.hooks {
		kv := hookKV(h)
		switch h.Name {
		case "TableClass":
			lastReason = fmt.Sprint(kv["reason"])
		case "TableInfo":
			if kv["id"] == "zqtable" {
				hookType = strings.ToLower(fmt.Sprint(kv["type"]))
				hookReason = lastReason
				visited = true
			}
		}
	}
	// is the tested table present as a <table> holding its first cell's word?
	tableOut := false
	firstNode := 0
	for _, m := range src.Media {
		_ = m
	}
	// the tested table's first text node: the first node with a table id after the two lead paragraphs
	for i, n := range src.Nodes {
		if n.Tbl != 0 {
			firstNode = i + 1
			break
		}
	}
	cellKept := false
	for _, r := range obs.Htm {
		if r.N == firstNode {
			cellKept = true
			if r.T {
				tableOut = true
			}
		}
	}
	if visited {
		count("visited")
	}
	count("verdict_" + hookType)
	count("reason_" + hookReason)
	ret := Event{"ev": "Return", "run": c.ID, "obs": map[string]interface{}{
		"err": obs.Err, "nodeok": obs.NodeOK, "visited": visited, "type": hookType, "reason": hookReason,
		"tableout": tableOut, "cellkept": cellKept}}
	return []Event{call, ret}
}
