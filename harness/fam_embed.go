package main

import (
	"fmt"
	"html"
	"strings"

	xhtml "golang.org/x/net/html"
)

// The "embed" family (C19): one case of spec/Embed.tla (carrier x source URL) becomes a
// page  <retained paragraph> <carrier element> <retained paragraph>.  The Call event
// carries the abstract case (f), the concrete tokens, the page host and the source as
// MEASURED on the parsed tree (carrier facts + the URL split lexically into RFC 3986
// components); the Return event carries the census of embed placeholders, the number of
// frames outside placeholders / tables / captions and whether the carrier's marker shows
// up.  Nothing is judged here: spec/trace/EmbedTrace.tla computes Embed!Expected from the
// measured source and evaluates the C19 predicates.

func init() { register("C19", runEmbed) }

const embedPageURL = "https://news.example.org/zqsection/zqstory.html"

var embedPageHost = []string{"news", "example", "org"}

func strList(v []interface{}) []string {
	out := make([]string, 0, len(v))
	for _, x := range v {
		out = append(out, fmt.Sprint(x))
	}
	return out
}

func digits(g *docGen, n int) string {
	b := make([]byte, n)
	b[0] = byte('1' + g.rng.Intn(9))
	for i := 1; i < n; i++ {
		b[i] = byte('0' + g.rng.Intn(10))
	}
	return string(b)
}

func ytID(g *docGen) string {
	const first = "abcdefghijklmnopqrstuvwxyzABCDEFGHIJKLMNOPQRSTUVWXYZ"
	const rest = first + "0123456789_-"
	b := make([]byte, 11)
	b[0] = first[g.rng.Intn(len(first))]
	for i := 1; i < len(b); i++ {
		b[i] = rest[g.rng.Intn(len(rest))]
	}
	return string(b)
}

// embedURL writes the URL of the case: scheme kind, userinfo, host labels, path segments
// (tokens ID / ROOT replaced), query, fragment.
func embedURL(c Case, id, rootName string, ampQuery bool, qv int) string {
	// the parameters of a "plain" query: players take many, and some are named like the attributes of the placeholder
	params := []string{"rel=0&autoplay=1", "id=zqdecoy7&rel=0", "type=vimeo&start=5", "autoplay=1&type=zqt&id=zqdecoy8"}[qv%4]
	hostL := strList(c.list("hostL"))
	userL := strList(c.list("userL"))
	segs := strList(c.list("path"))
	for i, s := range segs {
		switch s {
		case "ID":
			segs[i] = id
		case "ROOT":
			segs[i] = rootName
		}
	}
	host := strings.Join(hostL, ".")
	var sb strings.Builder
	scheme := c.str("scheme", "https")
	switch scheme {
	case "http", "https", "schemeRel":
		if scheme != "schemeRel" {
			sb.WriteString(scheme + ":")
		}
		sb.WriteString("//")
		if len(userL) > 0 {
			sb.WriteString(strings.Join(userL, ".") + "@")
		}
		sb.WriteString(host)
		if len(segs) > 0 {
			sb.WriteString("/" + strings.Join(segs, "/"))
		}
	default: // relPath / absPath: no authority, the would-be host is the first path segment
		if scheme == "absPath" {
			sb.WriteString("/")
		}
		sb.WriteString(strings.Join(append([]string{host}, segs...), "/"))
	}
	switch c.str("query", "none") {
	case "plain":
		// YouTube also accepts (and old embed codes use) "&" before the first parameter: .../v/ID&rel=0
		if ampQuery && strings.Contains(rootName, "youtube") && len(segs) > 0 && segs[len(segs)-1] == id {
			sb.WriteString("&" + params)
		} else {
			sb.WriteString("?" + params)
		}
	case "hostlike":
		sb.WriteString("?u=http://www." + rootName + "/embed/zqq1&rel=0")
	}
	switch c.str("frag", "none") {
	case "plain":
		sb.WriteString("#t=30")
	case "hostlike":
		sb.WriteString("#www." + rootName + "/embed/zqf1")
	}
	return sb.String()
}

// embedCarrier renders the carrier element. The marker is a token that occurs nowhere else.
func embedCarrier(c Case, g *docGen, url, tid, decoy, marker string) string {
	u := html.EscapeString(url)
	size := ` width="560" height="315"`
	switch c.str("carrier", "iframe") {
	case "iframe":
		// lazy-loading attributes name other addresses; the frame a browser loads is the one in src
		lazy := g.pick("", "", ` data-src="https://www.youtube.com/embed/zqlazy9"`, ` data-lazy-src="https://player.vimeo.com/video/424242"`)
		return `<iframe title="` + marker + `"` + size + lazy + ` src="` + u + `" frameborder="0" allowfullscreen></iframe>`
	case "iframeTid":
		// rendered tweets carry the class of the blockquote they replace; the class alone allows nothing
		cls := g.pick("", "", ` class="twitter-tweet twitter-tweet-rendered"`, ` class="twitter-tweet"`)
		return `<iframe title="` + marker + `"` + cls + ` scrolling="no" frameborder="0" allowtransparency="true" data-tweet-id="` + tid + `" src="` + u + `"></iframe>`
	case "objData":
		return `<object title="` + marker + `" type="application/x-shockwave-flash"` + size + ` data="` + u + `"></object>`
	case "objParam":
		return `<object title="` + marker + `"` + size + `><param name="movie" value="` + u + `"><param name="allowFullScreen" value="true"></object>`
	}
	// tweet blockquotes: a decoy anchor (a genuine tweet URL with another id) first, the tested anchor last
	cls := ""
	switch c.str("carrier", "") {
	case "bq", "bqNoAnchor":
		cls = ` class="` + g.pick("twitter-tweet", "twitter-tweet tw-align-center", "zqbox twitter-tweet") + `"`
	case "bqNoClass", "bqBare":
		cls = g.pick("", ` class="zqbox"`)
	}
	text := marker + " " + g.words(7)
	switch c.str("carrier", "") {
	case "bq", "bqNoClass":
		return `<blockquote` + cls + `><p lang="en" dir="ltr">` + text + ` <a href="https://twitter.com/zquser/status/` + decoy + `">zqpic</a></p>&mdash; zqname (@zquser) <a href="` + u + `">zqdate</a></blockquote>`
	}
	return `<blockquote` + cls + `><p lang="en" dir="ltr">` + text + `</p>&mdash; zqname (@zquser)</blockquote>`
}

// urlParts is a URL split lexically as RFC 3986 appendix B does:
// ^(([^:/?#]+):)?(//([^/?#]*))?([^?#]*)(\?([^#]*))?(#(.*))?
type urlParts struct {
	Scheme string   `json:"scheme"`
	Auth   bool     `json:"auth"`
	Lead   bool     `json:"lead"` // the path starts with "/"
	User   []string `json:"user"` // userinfo split at "."
	Host   []string `json:"host"` // host split at "."
	Path   []string `json:"path"` // path segments (after one leading "/")
	Query  bool     `json:"query"`
	Frag   bool     `json:"frag"`
}

func splitURL(s string) urlParts {
	p := urlParts{User: []string{}, Host: []string{}, Path: []string{}}
	if i := strings.IndexByte(s, '#'); i >= 0 {
		p.Frag = true
		s = s[:i]
	}
	if i := strings.IndexByte(s, '?'); i >= 0 {
		p.Query = true
		s = s[:i]
	} else if i := strings.IndexByte(s, '&'); i >= 0 {
		// parameters attached with "&" to a URL without "?" (old embed codes): read as the query they are meant to be
		p.Query = true
		s = s[:i]
	}
	if i := strings.IndexAny(s, ":/"); i > 0 && s[i] == ':' {
		p.Scheme = s[:i]
		s = s[i+1:]
	}
	if strings.HasPrefix(s, "//") {
		p.Auth = true
		s = s[2:]
		auth := s
		if i := strings.IndexByte(s, '/'); i >= 0 {
			auth, s = s[:i], s[i:]
		} else {
			s = ""
		}
		if i := strings.LastIndexByte(auth, '@'); i >= 0 {
			p.User = strings.Split(auth[:i], ".")
			auth = auth[i+1:]
		}
		if auth != "" {
			p.Host = strings.Split(auth, ".")
		}
	}
	if s != "" {
		if s[0] == '/' {
			p.Lead = true
			s = s[1:]
		}
		p.Path = strings.Split(s, "/")
	}
	return p
}

// embedSource measures the carrier on the parsed tree: the first iframe / object /
// blockquote of the document, where its source URL is written, and that URL's parts.
func embedSource(doc *xhtml.Node) map[string]interface{} {
	var car *xhtml.Node
	var find func(n *xhtml.Node)
	find = func(n *xhtml.Node) {
		if car != nil {
			return
		}
		if n.Type == xhtml.ElementNode && (n.Data == "iframe" || n.Data == "object" || n.Data == "blockquote") {
			car = n
			return
		}
		for c := n.FirstChild; c != nil; c = c.NextSibling {
			find(c)
		}
	}
	find(doc)
	m := map[string]interface{}{"tag": "none", "cls": false, "tid": "", "via": "none", "url": splitURL("")}
	if car == nil {
		return m
	}
	m["tag"] = car.Data
	if cl, ok := attr(car, "class"); ok {
		for _, t := range strings.Fields(cl) {
			if t == "twitter-tweet" {
				m["cls"] = true
			}
		}
	}
	if t, ok := attr(car, "data-tweet-id"); ok {
		m["tid"] = t
	}
	raw, via := "", "none"
	switch car.Data {
	case "iframe":
		if v, ok := attr(car, "src"); ok {
			raw, via = v, "src"
		}
	case "object":
		if t, _ := attr(car, "type"); t == "application/x-shockwave-flash" {
			if v, ok := attr(car, "data"); ok {
				raw, via = v, "data"
			}
		} else {
			var walk func(n *xhtml.Node)
			walk = func(n *xhtml.Node) {
				if via != "none" {
					return
				}
				if n.Type == xhtml.ElementNode && n.Data == "param" {
					if nm, _ := attr(n, "name"); nm == "movie" {
						if v, ok := attr(n, "value"); ok {
							raw, via = v, "param"
							return
						}
					}
				}
				for c := n.FirstChild; c != nil; c = c.NextSibling {
					walk(c)
				}
			}
			walk(car)
		}
	case "blockquote":
		var walk func(n *xhtml.Node)
		walk = func(n *xhtml.Node) {
			if n.Type == xhtml.ElementNode && n.Data == "a" {
				if v, ok := attr(n, "href"); ok {
					raw, via = v, "anchor" // the last one in document order wins
				} else {
					raw, via = "", "anchor"
				}
			}
			for c := n.FirstChild; c != nil; c = c.NextSibling {
				walk(c)
			}
		}
		walk(car)
	}
	m["via"] = via
	m["url"] = splitURL(raw)
	return m
}

// embedObserve projects Result.Node: placeholders as (data-type, data-id), frames outside
// placeholders / tables / figcaptions, and whether the marker occurs anywhere.
func embedObserve(root *xhtml.Node, marker string) ([]map[string]string, int, bool) {
	phs := []map[string]string{}
	frames := 0
	var walk func(n *xhtml.Node, inPh, inTbl bool)
	walk = func(n *xhtml.Node, inPh, inTbl bool) {
		if n.Type == xhtml.ElementNode {
			if isPlaceholder(n) {
				t, _ := attr(n, "data-type")
				id, _ := attr(n, "data-id")
				phs = append(phs, map[string]string{"type": t, "id": id})
				inPh = true
			}
			switch n.Data {
			case "table", "figcaption":
				inTbl = true
			case "iframe", "object", "embed":
				if !inPh && !inTbl {
					frames++
				}
			}
		}
		for c := n.FirstChild; c != nil; c = c.NextSibling {
			walk(c, inPh, inTbl)
		}
	}
	walk(root, false, false)
	return phs, frames, strings.Contains(renderNode(root), marker)
}

func runEmbed(c Case, e *env) []Event {
	g := newDocGen(e.seed, c.ID)
	root := c.str("root", "youtube")
	rootName := c.str("rootName", "youtube.com")
	id := ytID(g)
	switch root {
	case "vimeo":
		id = digits(g, 9)
	case "twitter":
		id = digits(g, 19)
	}
	tid := digits(g, 18)
	if c.str("carrier", "") == "iframeTid" && g.rng.Intn(6) == 0 {
		// an id with characters that matter in HTML (written here as character references): whatever the
		// attribute holds after parsing is the id, and it must come back unchanged
		tid = digits(g, 6) + g.pick("&quot;", "&amp;amp;", "&lt;b&gt;", "&quot; onclick=&quot;zqh()") + digits(g, 6)
	}
	decoy := digits(g, 17)
	marker := fmt.Sprintf("zqmk%d", 100000+g.rng.Intn(900000))
	url := embedURL(c, id, rootName, g.rng.Intn(3) == 0, g.rng.Intn(4))
	page := "<!DOCTYPE html><html><head><title>" + g.words(5) + "</title></head><body>" +
		g.para(70) + embedCarrier(c, g, url, tid, decoy, marker) + g.para(65) + "</body></html>"
	doc, err := xhtml.Parse(strings.NewReader(page))
	if err != nil {
		return []Event{{"ev": "Skip", "run": c.ID, "why": "unparseable"}}
	}
	// three runs in four get a (neutral) page URL
	opt := OptSpec{Skip: true}
	pageHost := []string{}
	if (c.ID+int(e.seed))%4 != 0 {
		opt.URL = embedPageURL
		pageHost = embedPageHost
	}
	if c.ID%16 == 5 {
		opt.Log = (c.ID / 16) % 16
	}
	f := map[string]interface{}{
		"carrier": c.str("carrier", ""), "root": root, "host": c.str("host", ""), "scheme": c.str("scheme", ""),
		"user": c.str("user", ""), "path": strList(c.list("path")), "query": c.str("query", ""), "frag": c.str("frag", ""),
	}
	src := embedSource(doc)
	call := Event{"ev": "Call", "run": c.ID, "prop": e.prop, "f": f,
		"tok":      map[string]string{"ID": id, "TID": html.UnescapeString(tid), "ROOT": rootName},
		"pageHost": pageHost, "m": src}
	if showInputs {
		call["html"] = page
		call["url"] = url
	}
	out := applyTree(doc, opt)
	if ev, bad := outcomeEvent(c.ID, out); bad {
		return []Event{call, ev}
	}
	nodeOK := out.res != nil && out.res.Node != nil
	phs, frames, seen := []map[string]string{}, 0, false
	if nodeOK {
		phs, frames, seen = embedObserve(out.res.Node, marker)
	}
	count("carrier_" + c.str("carrier", ""))
	count("root_" + root)
	count("host_" + c.str("host", ""))
	if len(pageHost) > 0 {
		count("with_page_url")
	} else {
		count("without_page_url")
	}
	if len(phs) > 0 {
		count("placeholder")
		count("placeholder_" + phs[0]["type"])
	} else {
		count("no_placeholder")
	}
	ret := Event{"ev": "Return", "run": c.ID, "obs": map[string]interface{}{
		"err": out.err != nil, "nodeok": nodeOK, "ph": phs, "frames": frames, "marker": seen}}
	return []Event{call, ret}
}
