package main

import (
	"fmt"
	nurl "net/url"
	"runtime/debug"
	"strings"
	"time"

	distiller "github.com/markusmobius/go-domdistiller"
	"github.com/markusmobius/go-domdistiller/vtrace"
	"golang.org/x/net/html"
)

// callOutcome is what one call of an entry point did.
type callOutcome struct {
	res   *distiller.Result
	err   error
	panic string // non-empty: recovered panic (with the top of the stack)
	hang  bool   // the call did not return within the watchdog limit
	dur   time.Duration
	hooks []vtrace.Event // events recorded by the verif hooks during the call
}

var watchdog = 20 * time.Second

// guarded runs f under recover and a watchdog. A hung call leaves its goroutine
// behind; the driver stops after reporting it.
func guarded(f func() (*distiller.Result, error)) callOutcome {
	done := make(chan callOutcome, 1)
	start := time.Now()
	go func() {
		var out callOutcome
		defer func() {
			if r := recover(); r != nil {
				st := string(debug.Stack())
				// keep the frames below the panic
				lines := strings.Split(st, "\n")
				keep := []string{}
				for _, l := range lines {
					if strings.Contains(l, "go-domdistiller") || strings.Contains(l, "/repo/") {
						keep = append(keep, strings.TrimSpace(l))
					}
					if len(keep) >= 6 {
						break
					}
				}
				out.panic = fmt.Sprintf("%v | %s", r, strings.Join(keep, " <- "))
			}
			out.dur = time.Since(start)
			out.hooks = vtrace.End()
			done <- out
		}()
		vtrace.Begin()
		out.res, out.err = f()
	}()
	select {
	case o := <-done:
		return o
	case <-time.After(watchdog):
		return callOutcome{hang: true, dur: time.Since(start)}
	}
}

// OptSpec is the abstract option tuple of a call (spec/Distiller.tla: opts).
type OptSpec struct {
	Nil  bool   `json:"nil"`  // pass a nil *Options
	Log  int    `json:"log"`  // LogFlags 0..15 (bit order of the implementation, see logFlags)
	URL  string `json:"url"`  // "" = no page URL
	Skip bool   `json:"skip"` // SkipPagination
	Algo int    `json:"algo"` // 0 PrevNext, 1 PageNumber
}

// logFlags maps an abstract 4-bit set to the implementation's flag bits.
func logFlags(bits int) distiller.LogFlag {
	var f distiller.LogFlag
	if bits&1 != 0 {
		f |= distiller.LogExtraction
	}
	if bits&2 != 0 {
		f |= distiller.LogVisibility
	}
	if bits&4 != 0 {
		f |= distiller.LogPagination
	}
	if bits&8 != 0 {
		f |= distiller.LogTiming
	}
	return f
}

func (o OptSpec) build() *distiller.Options {
	if o.Nil {
		return nil
	}
	opts := &distiller.Options{LogFlags: logFlags(o.Log), SkipPagination: o.Skip}
	if o.Algo == 1 {
		opts.PaginationAlgo = distiller.PageNumber
	}
	if o.URL != "" {
		if u, err := nurl.Parse(o.URL); err == nil {
			opts.OriginalURL = u
		}
	}
	return opts
}

func applyTree(doc *html.Node, o OptSpec) callOutcome {
	opts := o.build()
	return guarded(func() (*distiller.Result, error) { return distiller.Apply(doc, opts) })
}

func applyReader(raw string, o OptSpec) callOutcome {
	opts := o.build()
	return guarded(func() (*distiller.Result, error) { return distiller.ApplyForReader(strings.NewReader(raw), opts) })
}

func outcomeEvent(run int, out callOutcome) (Event, bool) {
	if out.panic != "" {
		return Event{"ev": "Panic", "run": run, "msg": out.panic}, true
	}
	if out.hang {
		return Event{"ev": "Hang", "run": run, "ms": out.dur.Milliseconds()}, true
	}
	return nil, false
}

// hookKV returns the key/value pairs of a hook event as a map.
func hookKV(ev vtrace.Event) map[string]interface{} {
	m := map[string]interface{}{}
	for i := 0; i+1 < len(ev.KV); i += 2 {
		if k, ok := ev.KV[i].(string); ok {
			m[k] = ev.KV[i+1]
		}
	}
	return m
}
