package main

import (
	"fmt"
	"strings"

	"github.com/markusmobius/go-domdistiller/vtrace"

	"golang.org/x/net/html"
)

// The "doc" family: abstract documents -> article-like pages with unique word
// tokens. Serves C02, C03, C04, C05, C07, C08, C09 (one concretiser, one
// projection; the generators in spec/gen differ per property).

func init() {
	register("C02,C03,C04,C05,C07,C08,C09", runDoc)
}

const pageURL = "https://example.com/news/story.html"

func docCase(c Case, e *env) (*docGen, string, string) {
	g := newDocGen(e.seed, c.ID)
	place := c.str("place", "")
	if place == "" {
		place = docPlaces[(c.ID+int(e.seed))%len(docPlaces)]
	}
	switch e.prop {
	case "C05":
		g.noise = true
		g.markupText = true
	case "C04X":
	case "C02", "C03", "C04", "C07":
		g.inlineJunk = e.prop == "C04" || e.prop == "C02"
		g.layoutNoise = e.prop == "C07" || e.prop == "C02"
		// attribute noise (handlers, id/class, data-*, aria-hidden="false" ...) on half of the pages: none of it
		// changes what is visible or how the page nests
		g.noise = c.ID%2 == 1
	case "C08":
		g.mediaSeps = true
	case "C09":
		g.noTitle = c.ID%3 == 0
		g.tightInline = true
	}
	g.literalWords = e.prop == "C03"
	trackLitWords = g.literalWords
	g.listMarkupText = e.prop == "C07"
	g.blanksBetween = e.prop == "C03" || e.prop == "C02" || e.prop == "C09"
	g.wrapIn = c.str("wrap", "")
	if c.boolean("canonical", false) {
		g.canonical = true
	}
	forest := buildForest(c.Nodes)
	return g, g.page(forest, place), place
}

func runDoc(c Case, e *env) []Event {
	_, page, place := docCase(c, e)
	doc, err := html.Parse(strings.NewReader(page))
	if err != nil {
		return []Event{{"ev": "Skip", "run": c.ID, "why": "unparseable"}}
	}
	chains, urls := newInterner(), newInterner()
	src := refAbstract(doc, chains)
	opt := OptSpec{}
	if (c.ID+int(e.seed))%2 == 0 {
		opt.URL = pageURL
	}
	opt.Skip = true
	call := Event{"ev": "Call", "run": c.ID, "prop": e.prop, "entry": "apply", "place": place, "opts": opt, "src": src}
	if showInputs {
		call["html"] = page
	}
	out := applyTree(doc, opt)
	if ev, bad := outcomeEvent(c.ID, out); bad {
		return []Event{call, ev}
	}
	obs := project(out.res, out.err, src, chains, urls)
	countDoc(src, obs)
	evs := []Event{call}
	if e.prop == "C07" || e.prop == "C08" {
		// the element list before the document filters and after each of them (verif hooks)
		if f := filterEvent(c.ID, out.hooks); f != nil {
			evs = append(evs, f)
		}
	}
	if e.prop == "C03" || e.prop == "C02" {
		// the text blocks after every text filter (verif hook TextFilter)
		if b := blocksEvent(c.ID, out.hooks); b != nil {
			evs = append(evs, b)
		}
	}
	return append(evs, Event{"ev": "Return", "run": c.ID, "obs": obs})
}

// countDoc keeps sensitivity statistics (never used for verdicts).
func countDoc(src *Src, obs *Obs) {
	if len(obs.Txt) > 0 {
		count("with_output")
	}
	if obs.Glued > 0 {
		count("words_across_inline_elements")
	}
	if len(src.glued) > 0 {
		count("source_words_across_inline_elements")
	}
	kept := map[int]bool{}
	for _, r := range obs.Txt {
		kept[r.N] = true
	}
	anyDropped := false
	for i, n := range src.Nodes {
		if n.F&(fNever|fSkip) == 0 && !kept[i+1] {
			anyDropped = true
			break
		}
	}
	if anyDropped && len(obs.Txt) > 0 {
		count("kept_and_dropped")
	}
	mk, md := false, false
	for _, k := range obs.MediaKept {
		if k {
			count("media_kept")
			mk = true
		} else {
			count("media_dropped")
			md = true
		}
	}
	if (mk || md) && anyDropped && len(obs.Txt) > 0 {
		count("media_mixed")
	}
	// a simple paragraph with at least two word-bearing text nodes
	pn := map[int]int{}
	for _, n := range src.Nodes {
		if n.Para != 0 {
			pn[n.Para]++
		}
	}
	for _, c := range pn {
		if c >= 2 {
			count("para_multi")
			break
		}
	}
	hasHidden := false
	for _, n := range src.Nodes {
		if n.F&(fNever|fSkip) != 0 && n.Para == 0 {
			hasHidden = true
		}
	}
	// the <title> is always a never-shown node; require one more
	nh := 0
	for _, n := range src.Nodes {
		if n.F&(fNever|fSkip) != 0 {
			nh++
		}
	}
	if hasHidden && nh >= 2 && len(obs.Txt) > 0 {
		count("hidden_and_output")
	}
	if obs.Census["elements"] >= 3 {
		count("out_elements")
	}
	if obs.OnlyTxt && obs.NTitle == 0 && len(obs.Txt) > 0 {
		count("wordcount_clause_applies")
	}
	for _, r := range obs.Htm {
		if r.N != 0 && r.N <= len(src.Nodes) && src.Nodes[r.N-1].Chain > 1 {
			count("chain_kept")
			break
		}
	}
}

// elemList turns the hook's element summary into the records of spec/DocFilters.tla.
func elemList(v interface{}) []map[string]interface{} {
	out := []map[string]interface{}{}
	l, ok := v.([]interface{})
	if !ok {
		return out
	}
	for _, x := range l {
		m, ok := x.(map[string]interface{})
		if !ok {
			continue
		}
		rec := map[string]interface{}{"k": m["k"], "c": m["c"], "name": "", "start": false}
		if m["k"] == "tag" {
			rec["name"] = m["name"]
			rec["start"] = m["start"]
		}
		out = append(out, rec)
	}
	return out
}

func filterEvent(run int, hooks []vtrace.Event) Event {
	var before []map[string]interface{}
	after := map[string][]map[string]interface{}{}
	order := []string{}
	for _, h := range hooks {
		kv := hookKV(h)
		switch h.Name {
		case "Pass":
			before = elemList(kv["elems"])
		case "DocFilter":
			name := fmt.Sprint(kv["name"])
			after[name] = elemList(kv["elems"])
			order = append(order, name)
		}
	}
	if before == nil || len(order) != 3 {
		return nil
	}
	count("filter_lists")
	return Event{"ev": "Filters", "run": run, "order": order, "before": before,
		"rel": after["RelevantElements"], "lead": after["LeadImage"], "nested": after["NestedElementRetainer"]}
}

// blocksEvent: the list of text blocks after every text filter of the LAST conversion pass (hook TextFilter),
// and the content flags of the Text elements after ApplyToModel (hook Pass); spec/trace/DocTrace.tla checks
// every step against spec/TextBlocks.tla.
func blocksEvent(run int, hooks []vtrace.Event) Event {
	var steps []map[string]interface{}
	var flags []bool
	for _, h := range hooks {
		kv := hookKV(h)
		switch h.Name {
		case "TextFilter":
			blocks := []map[string]interface{}{}
			if l, ok := kv["blocks"].([]interface{}); ok {
				for _, x := range l {
					m, _ := x.(map[string]interface{})
					texts := []int{}
					if tl, ok := m["texts"].([]interface{}); ok {
						for _, t := range tl {
							if v, ok := t.(int); ok {
								texts = append(texts, v)
							}
						}
					}
					blocks = append(blocks, map[string]interface{}{"texts": texts, "c": m["c"] == true})
				}
			}
			steps = append(steps, map[string]interface{}{"name": fmt.Sprint(kv["name"]), "blocks": blocks})
		case "Pass":
			// a pass is complete: its steps are the ones to judge unless another pass follows
			flags = flags[:0]
			if l, ok := kv["elems"].([]interface{}); ok {
				for _, x := range l {
					if m, _ := x.(map[string]interface{}); m != nil && m["k"] == "text" {
						flags = append(flags, m["c"] == true)
					}
				}
			}
		}
	}
	if len(steps) == 0 {
		return nil
	}
	// the steps of the last pass: the pipeline has 16 log points per pass ("Start" opens a pass)
	last := 0
	for i, st := range steps {
		if st["name"] == "Start" {
			last = i
		}
	}
	count("block_lists")
	return Event{"ev": "Blocks", "run": run, "steps": steps[last:], "flags": append([]bool{}, flags...)}
}
