package main

import (
	"fmt"
	"math/rand"
	"regexp"
	"strings"
)

// Concretiser of the "doc" family: abstract pre-order documents (spec/Dom.tla)
// become real HTML pages. Every word is a unique token zq<N>, every media element
// carries a unique marker m<N>, every link a unique marker u<N>. Each abstract kind
// is a CLASS; the member used for a node is drawn from a PRNG seeded by
// (VERIF_SEED, case id) so all members get covered without multiplying TLC's state
// space. Nothing here is used as an oracle: all source-side facts are recomputed
// from the parsed tree (ref.go).

type cnode struct {
	k    string
	kids []*cnode
	idx  int
	// kinds of the neighbours (previous / next sibling, or the parent at an edge)
	leftK, rightK string
	parentK       string
	textBefore    bool // an earlier sibling is a text with words
}

func buildForest(nodes []ANode) []*cnode {
	root := &cnode{k: "ROOT"}
	stack := []*cnode{root}
	for i, n := range nodes {
		c := &cnode{k: n.K, idx: i + 1}
		d := n.D
		if d < 1 {
			d = 1
		}
		if d > len(stack) {
			d = len(stack)
		}
		parent := stack[d-1]
		parent.kids = append(parent.kids, c)
		stack = append(stack[:d], c)
	}
	return root.kids
}

type docGen struct {
	rng   *rand.Rand
	tok   int
	med   int
	lnk   int
	sb    strings.Builder
	long  int // words of a long text
	short int // words of a short text
	// restricts member rotation to the canonical member (used by properties whose
	// statement only covers the canonical form)
	canonical bool
	// attribute noise for C05: decorate elements with on*/id/class/style/data-*
	noise bool
	// page URL given: relative media/link URLs
	hideVariants   []string
	wrapIn         string // C03: place the generated forest inside li / blockquote / table cell
	layoutNoise    bool   // list items / quotes / pre may carry display:inline-block (C07)
	listMarkupText bool   // some texts show list / quote markup as text (C07: the words behind it keep their chain)
	markupText     bool   // some texts show markup as text (C05: nothing of it may come alive)
	inlineJunk     bool   // inline formatting elements may hold hidden spans / scripts (C04)
	blanksBetween  bool   // neighbouring inline elements are kept apart by a white-space text node between them (C03, C02, C09)
	literalWords   bool   // words that are also element names, as the whole text of an inline element (C03)
	litUsed        int    // how many of litMarkup this page has used
	litStart       int    // the first of them
	tightInline    bool   // words may continue across the edge of an inline element (C09)
	mediaSeps      bool   // separator signs (text without a word) in front of media inside a line (C08)
	noTitle        bool   // no <title> element (C09: the word-count clause needs pages without title)
}

var litMarkup = []string{"<code>style</code>", "<em>script</em>", "<b>head</b>", "<i>noscript</i>", "<u>title</u>", "<code>body</code>"}

func newDocGen(seed int64, id int) *docGen {
	return &docGen{
		rng:   rand.New(rand.NewSource(seed*1000003 + int64(id)*7919 + 17)),
		long:  30,
		short: 3,
	}
}

func (g *docGen) pick(opts ...string) string {
	if g.canonical {
		return opts[0]
	}
	return opts[g.rng.Intn(len(opts))]
}

func (g *docGen) words(n int) string {
	parts := make([]string, n)
	for i := range parts {
		g.tok++
		parts[i] = fmt.Sprintf("zq%d", g.tok)
	}
	return strings.Join(parts, " ")
}

func (g *docGen) marker() int {
	g.med++
	return g.med
}

// noiseAttrs returns attribute noise for an element (C05): handlers, id, class,
// style, data-*, unknown attributes. Class/id values are neutral w.r.t. every
// class/id-driven heuristic of the distiller.
func (g *docGen) noiseAttrs() string {
	if !g.noise {
		return ""
	}
	// event handlers: the common ones, rarely used and recent ones, and a made-up one (every on* attribute is a handler)
	handlers := []string{"onclick", "onload", "onmouseover", "onerror", "onfocus", "onblur", "onkeydown", "onsubmit", "ontoggle",
		"onbeforetoggle", "onbeforematch", "onauxclick", "onscrollend", "onpointerrawupdate", "onanimationend", "ontransitionend",
		"oncontextmenu", "onwheel", "oncopy", "onsecuritypolicyviolation", "onzqcustom"}
	hn := func() string { return " " + handlers[g.rng.Intn(len(handlers))] + `="zqh()"` }
	all := []string{
		hn(), hn(), hn(), hn(),
		` id="nx` + fmt.Sprint(g.rng.Intn(1000)) + `"`, ` class="kx` + fmt.Sprint(g.rng.Intn(1000)) + `"`,
		` style="color:red"`, ` data-x="1"`, ` data-zq="v"`, ` zqunknown="1"`, ` title="tt"`, ` lang="en"`,
		` aria-hidden="false"`, // explicitly exposed: as visible as without the attribute
		// the same attribute twice (the parser keeps both)
		` class="kx7" class="kx8"`, ` id="nx7" id="nx8"`, ` style="color:red" style="color:blue"`,
	}
	n := g.rng.Intn(4)
	out := ""
	seen := map[int]bool{}
	for i := 0; i < n; i++ {
		j := g.rng.Intn(len(all))
		if seen[j] {
			continue
		}
		seen[j] = true
		out += all[j]
	}
	return out
}

var hideMechanisms = []string{
	` hidden`,
	` hidden=""`,
	` style="display:none"`,
	` style="display: none;"`,
	` style="color:red; display:none"`,
	` style="display:none; color:red"`,
	` style="visibility:hidden"`,
	` style="visibility: collapse"`,
	` aria-hidden="true"`,
	// the same declarations as CSS allows them to be written
	` style="DISPLAY:NONE"`,
	` style="display:none !important"`,
	` style="display : none"`,
	` style="Display: None;"`,
	` style="VISIBILITY: HIDDEN"`,
	` style="visibility:hidden !important"`,
	// hidden is a boolean attribute: present means hidden, whatever its value says
	` hidden="hidden"`,
	` hidden="false"`,
	` hidden="FALSE"`,
	// the class that exempts Wikimedia's math images from aria-hidden does not undo any other way of hiding
	` class="mwe-math-fallback-image-inline" style="display:none"`,
	` hidden class="fallback-image"`,
	` class="fallback-image" style="visibility:hidden"`,
}

func (g *docGen) hideAttr() string {
	if len(g.hideVariants) > 0 {
		return g.hideVariants[g.rng.Intn(len(g.hideVariants))]
	}
	return g.pick(hideMechanisms...)
}

// blockish: kinds rendered as block-level boxes - text next to them is a separate
// line in the source whatever the white space, so a bare (unpadded) text is safe there.
var blockish = map[string]bool{"P": true, "DIV": true, "H": true, "UL": true, "OL": true, "LI": true, "BQ": true, "PRE": true,
	"DT": true, "LT": true, "FIG": true, "FIGL": true, "TW": true, "LNK": true, "MRK": true, "ROOT": true,
	// form controls and other replaced elements are visible boxes of their own: "alpha<input>omega" reads as two words
	"SKF": true,
	// a sharing box is a visible block, even though the converter leaves it out
	"SHR": true,
	// a blank between two elements (a white-space text node of its own)
	"SP": true}

// padded renders the words of a text node, without the surrounding space on a side
// that faces a block-level neighbour (or the edge of a block-level parent): there the
// words are separated in the source by layout alone, and must stay separated in the
// output. Towards inline neighbours the text is always padded, so no source word
// spans two text nodes.
func (g *docGen) padded(n *cnode, w string) string {
	left, right := " ", " "
	if g.rng.Intn(3) != 0 && blockish[n.leftK] {
		left = ""
	}
	if g.rng.Intn(3) != 0 && blockish[n.rightK] {
		right = ""
	}
	if g.tightInline {
		// a word that goes on in the neighbouring inline element (a drop cap, 10<sup>th</sup>): one word of the
		// source, which the reference and the projection read as such
		if runsOn[n.leftK] && g.rng.Intn(2) == 0 {
			left = ""
		}
		if runsOn[n.rightK] && g.rng.Intn(2) == 0 {
			right = ""
		}
	}
	return left + w + right
}

// runsOn: neighbours a word may continue into
var runsOn = map[string]bool{"T": true, "t": true, "INL": true, "A": true, "FONT": true}

// layoutStyle: list items laid out in a row, pull quotes - an inline-block (or flex) box is still a box of its own
func (g *docGen) layoutStyle() string {
	if !g.layoutNoise || g.rng.Intn(5) != 0 {
		return ""
	}
	return g.pick(` style="display:inline-block"`, ` style="display: inline-flex"`, ` style="display:inline-block; width:30%"`)
}

func (g *docGen) linkKids(kids []*cnode, parentK string) {
	for i, c := range kids {
		c.leftK, c.rightK = parentK, parentK
		c.parentK = parentK
		for j := 0; j < i; j++ {
			if kids[j].k == "T" || kids[j].k == "t" {
				c.textBefore = true
			}
		}
		// what a reader sees next to the text: comments and hidden elements are not there at all
		for j := i - 1; j >= 0; j-- {
			if !unseen[kids[j].k] {
				c.leftK = kids[j].k
				break
			}
		}
		for j := i + 1; j < len(kids); j++ {
			if !unseen[kids[j].k] {
				c.rightK = kids[j].k
				break
			}
		}
	}
}

var unseen = map[string]bool{"CMT": true, "HID": true, "HIN": true}

func (g *docGen) seenBefore(kids []*cnode, i int) bool {
	for j := 0; j < i; j++ {
		if !unseen[kids[j].k] {
			return true
		}
	}
	return false
}

func (g *docGen) seenAfter(kids []*cnode, i int) bool {
	for j := i + 1; j < len(kids); j++ {
		if !unseen[kids[j].k] {
			return true
		}
	}
	return false
}

// inlineKinds: elements that do not end a line - what lies beyond them is what the text at their edge faces
var inlineKinds = map[string]bool{"INL": true, "A": true, "AJ": true, "FONT": true}

func (g *docGen) kidsHTML(n *cnode) string {
	g.linkKids(n.kids, n.k)
	if inlineKinds[n.k] && n.leftK != "" && n.rightK != "" {
		// the first / last thing inside an inline element faces the element's own neighbour:
		// <b>... HERE</b><form> ends a line after HERE just as HERE<form> does
		for i, c := range n.kids {
			if c.leftK == n.k && !g.seenBefore(n.kids, i) {
				c.leftK = n.leftK
			}
			if c.rightK == n.k && !g.seenAfter(n.kids, i) {
				c.rightK = n.rightK
			}
		}
	}
	// two inline elements side by side are usually kept apart by a blank BETWEEN them (a text node of its own),
	// not by blanks inside them
	blankBefore := make([]bool, len(n.kids))
	if g.blanksBetween {
		for i := 1; i < len(n.kids); i++ {
			if inlineKinds[n.kids[i-1].k] && inlineKinds[n.kids[i].k] && g.rng.Intn(2) == 0 {
				blankBefore[i] = true
				n.kids[i-1].rightK, n.kids[i].leftK = "SP", "SP"
			}
		}
	}
	var sb strings.Builder
	for i, c := range n.kids {
		if blankBefore[i] {
			sb.WriteString(g.pick(" ", " ", "\n"))
		}
		sb.WriteString(g.render(c))
	}
	return sb.String()
}

// rawWords renders the word-bearing children of a raw-text container as plain words.
func (g *docGen) rawWords(n *cnode) string {
	cnt := 0
	for _, c := range n.kids {
		switch c.k {
		case "T":
			cnt += g.long
		case "t":
			cnt += g.short
		}
	}
	if cnt == 0 {
		cnt = g.short
	}
	return g.words(cnt)
}

func (g *docGen) wrap(tag, attrs, inner string) string {
	return "<" + tag + attrs + g.noiseAttrs() + ">" + inner + "</" + tag + ">"
}

// render: one node; media that follow something in the same line are sometimes set off by a separator sign -
// a piece of text without a single word
func (g *docGen) render(n *cnode) string {
	out := g.render0(n)
	gallery := n.leftK == "IMG" || n.leftK == "VID" || n.leftK == "EMB" // media side by side: a small gallery, always with a sign between
	if g.mediaSeps && n.parentK == "P" && n.textBefore && (n.k == "IMG" || n.k == "VID" || n.k == "EMB") && (gallery || g.rng.Intn(2) == 0) {
		out = g.pick(" | ", " \u00b7 ", " \u2014 ", " *** ") + out
	}
	return out
}

func (g *docGen) render0(n *cnode) string {
	switch n.k {
	case "T":
		w := g.words(g.long)
		if g.listMarkupText && g.rng.Intn(4) == 0 {
			// text that SHOWS list / quote markup (an HTML tutorial): the words behind it stay where they are
			w = g.words(g.long/2) + " " + g.pick(`&lt;ul&gt;&lt;li&gt;`, `&lt;blockquote&gt;`, `&lt;ol&gt;&lt;li&gt;`, `&lt;pre&gt;`, `&lt;/li&gt;&lt;/ul&gt;`) + " " + g.words(g.long-g.long/2)
		}
		if g.markupText && g.rng.Intn(5) == 0 {
			// text that SHOWS markup (a code sample, a comment quoting a tag): character references, not elements
			w += " " + g.pick(`&lt;script&gt;zqh()&lt;/script&gt;`, `&lt;img src=x onerror=zqh()&gt;`,
				`&lt;p id="nx1" class="kx1" style="color:red" onclick="zqh()"&gt;`, `&lt;style&gt;p{color:red}&lt;/style&gt;`)
		}
		return g.padded(n, w)
	case "t":
		return g.padded(n, g.words(g.short))
	case "W":
		return g.pick(" ", "\n", "  \t ")
	case "BR":
		return "<br>"
	case "CMT":
		return "<!-- " + g.words(g.short) + " -->"
	case "INL":
		inner := g.kidsHTML(n)
		if g.inlineJunk && g.rng.Intn(4) == 0 {
			// formatting elements sometimes carry things no reader sees: a hidden marker, a script
			inner += g.pick(`<span hidden>`+g.words(2)+`</span>`, `<span style="display:none">`+g.words(2)+`</span>`,
				`<script>var `+g.words(1)+`;</script>`, `<em hidden>`+g.words(1)+`</em>`)
		}
		if g.literalWords && g.rng.Intn(5) == 0 && g.litUsed < len(litMarkup) {
			// an everyday word that happens to be the name of an element, as the whole text of an element of its own
			// (each of them once per page: they are tracked like the unique words)
			if g.litUsed == 0 {
				g.litStart = g.rng.Intn(len(litMarkup))
			}
			inner += " " + litMarkup[(g.litStart+g.litUsed)%len(litMarkup)] + " "
			g.litUsed++
		}
		st := ""
		if g.tightInline && g.rng.Intn(4) == 0 {
			// an inline style that changes how the element is laid out: gone from the distilled HTML, so it must not
			// decide where the words of the text view end either
			st = g.pick(` style="display:inline-block"`, ` style="display: block"`, ` style="display:inline-block; float:left"`)
		}
		return g.wrap(g.pick("b", "i", "em", "strong", "span", "u", "code"), st, inner)
	case "FONT":
		return g.wrap("font", ` color="red"`, g.kidsHTML(n))
	case "A":
		g.lnk++
		return g.wrap("a", fmt.Sprintf(` href="/lnk/u%d.html"`, g.lnk), g.kidsHTML(n))
	case "AJ":
		return g.wrap("a", ` href="`+g.pick("javascript:void(0)", "javascript:zqf()", "javascript:;")+`"`, g.kidsHTML(n))
	case "P":
		return g.wrap("p", "", g.kidsHTML(n))
	case "DIV":
		return g.wrap(g.pick("div", "section", "article", "div", "main", "address", "header"), "", g.kidsHTML(n))
	case "H":
		return g.wrap(g.pick("h2", "h3", "h4"), "", g.kidsHTML(n))
	case "UL":
		return g.wrap("ul", "", g.kidsHTML(n))
	case "OL":
		return g.wrap("ol", "", g.kidsHTML(n))
	case "LI":
		return g.wrap("li", g.layoutStyle(), g.kidsHTML(n))
	case "BQ":
		return g.wrap("blockquote", g.layoutStyle(), g.kidsHTML(n))
	case "PRE":
		return g.wrap("pre", g.layoutStyle(), g.kidsHTML(n))
	case "HID":
		switch g.pick("div", "p", "section", "div", "figure", "tweet", "figcap", "figcap") {
		case "figcap":
			// a visible figure whose caption sits in a hidden part of it (a collapsed credit line, a caption a script reveals)
			link := g.pick("", ` <a href="/lnk/c`+fmt.Sprint(g.marker())+`.html">`+g.words(1)+`</a> `)
			wrapTag := g.pick("div", "span", "div")
			return fmt.Sprintf(`<figure><img src="/i/m%d.png"><%s%s><figcaption>%s%s</figcaption></%s></figure>`, g.marker(), wrapTag, g.hideAttr(), g.kidsHTML(n), link, wrapTag)
		case "figure":
			// the hidden element is itself one an embed extractor recognises
			return fmt.Sprintf(`<figure%s%s><img src="/i/m%d.png"><figcaption>%s</figcaption></figure>`, g.hideAttr(), g.noiseAttrs(), g.marker(), g.kidsHTML(n))
		case "tweet":
			return fmt.Sprintf(`<blockquote class="twitter-tweet"%s><div>%s</div><a href="https://twitter.com/u/status/%d">t</a></blockquote>`, g.hideAttr(), g.kidsHTML(n), g.marker())
		}
		return g.wrap(g.pick("div", "p", "section"), g.hideAttr(), g.kidsHTML(n))
	case "HIN":
		if g.rng.Intn(4) == 0 {
			// the element the converter rewrites (font -> span) may be hidden too
			return "<font" + g.hideAttr() + ` color="red" face="serif">` + g.kidsHTML(n) + "</font>"
		}
		return g.wrap(g.pick("span", "b", "em"), g.hideAttr(), g.kidsHTML(n))
	case "SKS":
		w := g.rawWords(n)
		switch g.pick("script", "style", "noscript", "svg", "iframe", "scripttyped", "scriptblock", "styleblock") {
		case "scriptblock":
			return `<script style="display:block">var ` + strings.ReplaceAll(w, " ", "; var ") + ";</script>"
		case "styleblock":
			return `<style style="display: block">.` + strings.ReplaceAll(w, " ", " .") + " {color:red}</style>"
		case "script":
			return "<script>var " + strings.ReplaceAll(w, " ", "; var ") + ";</script>"
		case "scripttyped":
			return `<script type="application/ld+json">{"x":"` + w + `"}</script>`
		case "style":
			return "<style>." + strings.ReplaceAll(w, " ", " .") + " {color:red}</style>"
		case "noscript":
			if g.rng.Intn(3) == 0 {
				// the usual content of noscript: fallback markup, with everything markup carries
				return "<noscript" + g.noiseAttrs() + "> " + w + fmt.Sprintf(` <img src="/i/zqns%d.png" id="nx%d" class="kx%d" style="color:red" onerror="zqh()" data-zq="v"> </noscript>`, g.marker(), g.rng.Intn(900), g.rng.Intn(900))
			}
			return "<noscript" + g.noiseAttrs() + "> " + w + " </noscript>"
		case "svg":
			return "<svg" + g.noiseAttrs() + ` viewBox="0 0 10 10"><path d="M0 0L9 9"` + g.noiseAttrs() + "></path><text" + g.noiseAttrs() + "> " + w + " </text></svg>"
		default:
			return `<iframe src="https://frames.example.org/f` + fmt.Sprint(g.marker()) + `"> ` + w + " </iframe>" // fallback text of a frame: where it is shown at all it is a line of its own
		}
	case "SHR":
		w := g.rawWords(n)
		box := g.pick(`<div class="sharing">`+w+`</div>`, `<div class="socialArea">`+w+`</div>`, `<div data-component="share">`+w+`</div>`,
			`<section class="sharing"><a href="/share">`+w+`</a></section>`)
		// such boxes usually come with an end marker or their loader right behind them - nothing a reader sees
		return box + g.pick("", "", `<!-- /sharing -->`, `<script>var sx7 = 1;</script>`, `<!-- end --><script async src="/js/share.js"></script>`)
	case "SKF":
		w := g.rawWords(n)
		switch g.pick("form", "button", "select", "textarea", "object", "applet", "label-input") {
		case "form":
			return "<form" + g.noiseAttrs() + "><p>" + w + "</p><input type=\"text\" value=\"" + g.words(1) + "\"" + g.noiseAttrs() + "></form>"
		case "button":
			return "<button" + g.noiseAttrs() + ">" + w + "</button>"
		case "select":
			return "<select" + g.noiseAttrs() + "><option" + g.noiseAttrs() + ">" + w + "</option></select>"
		case "textarea":
			return "<textarea" + g.noiseAttrs() + ">" + w + "</textarea>"
		case "object":
			return `<object data="/o/x.swf"` + g.noiseAttrs() + "> " + w + " </object>"
		case "applet":
			return "<applet" + g.noiseAttrs() + ">" + w + "</applet>"
		default:
			return `<input type="submit" value="` + g.words(1) + `">`
		}
	case "IMG":
		m := g.marker()
		switch g.pick("plain", "srcset", "picture", "lazy", "wiki", "alt", "srcsetcomma") {
		case "srcsetcomma":
			// CDN style URLs carry commas; only a comma followed by white space separates candidates
			return fmt.Sprintf(`<img src="/i/m%d.png" srcset="/i/w_400,h_300/m%d-a.png 400w, /i/w_800,h_600/m%d-b.png 800w"%s>`, m, m, m, g.noiseAttrs())
		case "srcset":
			return fmt.Sprintf(`<img src="/i/m%d.png" srcset="/i/m%d-2x.png 2x, /i/m%d-3x.png 3x"%s>`, m, m, m, g.noiseAttrs())
		case "picture":
			// pictures may carry more than sources and the image: hidden fallbacks, comments, scripts
			junkOf := func() string {
				return g.pick(" "+g.words(2)+" ", `<span hidden>`+g.words(2)+`</span>`, `<span style="display:none">`+g.words(2)+`</span>`,
					`<!-- `+g.words(2)+` -->`, `<script>var `+g.words(1)+`;</script>`, `<noscript>`+g.words(2)+`</noscript>`, `<style>.`+g.words(1)+` {color:red}</style>`)
			}
			// none, one or several extra children, before and after the image, on one line or pretty-printed
			sep := g.pick("", "", "\n  ")
			before, after := "", ""
			for i, k := 0, g.rng.Intn(4); i < k; i++ {
				if g.rng.Intn(2) == 0 {
					before += sep + junkOf()
				} else {
					after += sep + junkOf()
				}
			}
			return fmt.Sprintf(`<picture%s>%s<source srcset="/i/m%d-s.webp"%s>%s%s<img src="/i/m%d.png"%s>%s%s</picture>`, g.noiseAttrs(), sep, m, g.noiseAttrs(), before, sep, m, g.noiseAttrs(), after, sep)
		case "lazy":
			// the place holder src of lazy loaders: nothing, a transparent pixel, or a data URI cut short
			ph := g.pick("", "", ` src="data:image/gif;base64,R0lGODlhAQABAAAAACw="`, ` src="data:image/gif;base64"`, ` src="data:image/gif;base64,"`,
				` src="data:,"`, ` src="data:"`, ` src=""`, ` src="about:blank"`)
			return fmt.Sprintf(`<img%s data-src="/i/m%d.png"%s>`, ph, m, g.noiseAttrs())
		case "wiki":
			return fmt.Sprintf(`<span class="lazy-image-placeholder" data-src="/i/m%d.png" data-srcset="/i/m%d-2x.png 2x"></span>`, m, m)
		case "alt":
			return fmt.Sprintf(`<img src="/i/m%d.png" alt="an image" width="400" height="300"%s>`, m, g.noiseAttrs())
		default:
			return fmt.Sprintf(`<img src="/i/m%d.png"%s>`, m, g.noiseAttrs())
		}
	case "VID":
		m := g.marker()
		switch g.pick("src", "sources", "poster") {
		case "sources":
			return fmt.Sprintf(`<video controls%s><source src="/v/m%d.webm"%s><source src="/v/m%d.mp4"><track src="/v/m%d.vtt"%s></video>`, g.noiseAttrs(), m, g.noiseAttrs(), m, m, g.noiseAttrs())
		case "poster":
			return fmt.Sprintf(`<video src="/v/m%d.mp4" poster="/v/m%d.jpg"%s></video>`, m, m, g.noiseAttrs())
		default:
			return fmt.Sprintf(`<video src="/v/m%d.mp4"%s></video>`, m, g.noiseAttrs())
		}
	case "EMB":
		m := g.marker()
		switch g.pick("youtube", "vimeo", "nocookie", "twitter-iframe", "yt-object", "yt-object-param") {
		case "yt-object":
			return fmt.Sprintf(`<object type="application/x-shockwave-flash" data="https://www.youtube.com/v/m%d" width="400" height="300"></object>`, m)
		case "yt-object-param":
			return fmt.Sprintf(`<object width="400" height="300"><param name="movie" value="https://www.youtube.com/v/m%d"><param name="allowFullScreen" value="true"></object>`, m)
		case "vimeo":
			return fmt.Sprintf(`<iframe src="https://player.vimeo.com/video/m%d"%s></iframe>`, m, g.noiseAttrs())
		case "nocookie":
			return fmt.Sprintf(`<iframe src="https://www.youtube-nocookie.com/embed/m%d?rel=0"%s></iframe>`, m, g.noiseAttrs())
		case "twitter-iframe":
			return fmt.Sprintf(`<iframe src="https://platform.twitter.com/embed/index.html" data-tweet-id="m%d"%s></iframe>`, m, g.noiseAttrs())
		default:
			return fmt.Sprintf(`<iframe src="https://www.youtube.com/embed/m%d"%s></iframe>`, m, g.noiseAttrs())
		}
	case "TW":
		m := g.marker()
		return fmt.Sprintf(`<blockquote class="twitter-tweet"><p>%s</p>%s <a href="https://twitter.com/zquser/status/m%d">link</a></blockquote>`, g.words(g.short), g.kidsHTML(n), m)
	case "LNK":
		// a link-dense cluster, one level deeper than its surroundings: boilerplate-looking text
		var sb strings.Builder
		sb.WriteString("<div><div><p>")
		for i := 0; i < 3; i++ {
			g.lnk++
			sb.WriteString(fmt.Sprintf(`<a href="/lnk/u%d.html">%s</a> `, g.lnk, g.words(2)))
		}
		sb.WriteString("</p></div></div>")
		return sb.String()
	case "FIG":
		m := g.marker()
		img := fmt.Sprintf(`<img src="/i/m%d.png"%s>`, m, g.noiseAttrs())
		switch g.pick("img", "img", "noscript", "picture", "noscriptonly") {
		case "noscript":
			img = fmt.Sprintf(`<img src="data:image/gif;base64,R0lGOD"><noscript><img src="/i/m%d.png"></noscript>`, m)
		case "noscriptonly":
			// the visible place holder is no image at all; the real one only exists inside noscript
			img = g.pick(`<div class="zqlazy"></div>`, `<canvas width="4" height="3"></canvas>`, ``) + fmt.Sprintf(`<noscript><img src="/i/m%d.png"></noscript>`, m)
		case "picture":
			junk := g.pick("", `<span hidden>`+g.words(2)+`</span>`, `<!-- `+g.words(2)+` -->`, `<script>var `+g.words(1)+`;</script>`)
			// pretty-printed markup, and a stray word behind the image (fallback text nobody sees)
			sep := g.pick("", "\n  ", "\n  ")
			tail := g.pick("", "", sep+g.words(2)+" ", sep+g.words(1)+sep+`<span>`+g.words(1)+`</span>`+sep)
			img = fmt.Sprintf(`<picture%s>%s<source srcset="/i/m%d-s.webp"%s>%s%s<img src="/i/m%d.png"%s>%s%s</picture>`, g.noiseAttrs(), sep, m, g.noiseAttrs(), junk, sep, m, g.noiseAttrs(), tail, sep)
		}
		cap := g.kidsHTML(n)
		if len(n.kids) == 0 {
			return g.wrap("figure", "", img)
		}
		return g.wrap("figure", "", img+g.wrap("figcaption", "", cap))
	case "FIGL":
		m := g.marker()
		g.lnk++
		img := fmt.Sprintf(`<img src="/i/m%d.png"%s>`, m, g.noiseAttrs())
		cap := g.kidsHTML(n) + fmt.Sprintf(` <a href="/lnk/u%d.html"%s>%s</a>`, g.lnk, g.noiseAttrs(), g.words(g.short))
		// the caption itself may be hidden
		capAttr := g.pick("", "", "", "", " hidden", ` style="display:none"`, ` aria-hidden="true"`)
		return g.wrap("figure", "", img+g.wrap("figcaption", capAttr, cap))
	case "DT":
		// a data table: header row + body rows of two cells; children fill the cells
		var sb strings.Builder
		sb.WriteString("<table" + g.noiseAttrs() + ">")
		if g.pick("nocap", "cap") == "cap" {
			sb.WriteString("<caption>" + g.words(g.short) + "</caption>")
		}
		sb.WriteString("<tr" + g.noiseAttrs() + "><th>" + g.words(1) + "</th><th>" + g.words(1) + "</th></tr>")
		if g.rng.Intn(4) == 0 {
			// a row without a cell of its own (the cells above span it), or one whose cells are all hidden: still a row
			sb.WriteString(g.pick("<tr></tr>", "<tr>\n</tr>", `<tr><td hidden>`+g.words(1)+`</td><td style="display:none">`+g.words(1)+`</td></tr>`))
		}
		kids := n.kids
		for i := 0; i < len(kids) || i < 2; i += 2 {
			sb.WriteString("<tr>")
			for j := i; j < i+2; j++ {
				sb.WriteString("<td" + g.noiseAttrs() + ">")
				if j < len(kids) {
					kids[j].leftK, kids[j].rightK = "DT", "DT"
					sb.WriteString(g.render(kids[j]))
				} else {
					sb.WriteString(g.words(g.short))
				}
				sb.WriteString("</td>")
			}
			sb.WriteString("</tr>")
		}
		sb.WriteString("</table>")
		return sb.String()
	case "LT":
		// a layout table: one row (at most one row => layout)
		var sb strings.Builder
		sb.WriteString("<table" + g.noiseAttrs() + "><tr>")
		if len(n.kids) == 0 {
			sb.WriteString("<td>" + g.words(g.short) + "</td>")
		}
		// header cells do not make a one-row table a data table: all th, all td, or mixed
		mode := g.pick("td", "th", "mixed")
		for _, c := range n.kids {
			cell := mode
			if mode == "mixed" {
				cell = g.pick("td", "th")
			}
			c.leftK, c.rightK = "LT", "LT" // alone in its cell: the cell edges separate it from its neighbours
			sb.WriteString("<" + cell + g.noiseAttrs() + ">" + g.render(c) + "</" + cell + ">")
		}
		sb.WriteString("</tr></table>")
		return sb.String()
	}
	return ""
}

// linkCluster is chrome: link-dense and one level deeper than the story, so the
// real classifier normally drops it (used for sensitivity only, never for verdicts).
func (g *docGen) linkCluster(n int) string {
	var sb strings.Builder
	sb.WriteString("<div><ul>")
	for i := 0; i < n; i++ {
		g.lnk++
		sb.WriteString(fmt.Sprintf(`<li><a href="/lnk/u%d.html">%s</a></li>`, g.lnk, g.words(2)))
	}
	sb.WriteString("</ul></div>")
	return sb.String()
}

func (g *docGen) para(n int) string { return "<p>" + g.words(n) + "</p>" }

// page wraps the generated forest into one of several page skeletons.
func (g *docGen) page(forest []*cnode, place string) string {
	var body strings.Builder
	g.linkKids(forest, "ROOT")
	for _, n := range forest {
		body.WriteString(g.render(n))
	}
	gen := body.String()
	// "bare" placements: the children of the generated paragraph sit directly in the cell / item, without a p of their own
	if (g.wrapIn == "tdbare" || g.wrapIn == "libare") && len(forest) == 1 && forest[0].k == "P" {
		forest[0].k = map[string]string{"tdbare": "LT", "libare": "LI"}[g.wrapIn] // what the children face at the edges
		gen = g.kidsHTML(forest[0])
		forest[0].k = "P"
	}
	switch g.wrapIn {
	case "tdbare":
		gen = "<table><tr><td>" + gen + "</td><td>" + g.words(4) + "</td></tr></table>"
	case "libare":
		gen = "<ul><li>" + gen + "</li><li>" + g.words(12) + "</li></ul>"
	case "li":
		gen = "<ul><li>" + gen + "</li><li>" + g.words(12) + "</li></ul>"
	case "bq":
		gen = "<blockquote>" + gen + "</blockquote>"
	case "td":
		gen = "<table><tr><td>" + gen + "</td><td>" + g.words(4) + "</td></tr></table>"
	case "dtd":
		gen = "<table><tr><th>" + g.words(1) + "</th><th>" + g.words(1) + "</th></tr><tr><td>" + gen + "</td><td>" + g.words(4) + "</td></tr></table>"
	}
	var sb strings.Builder
	if g.noTitle {
		sb.WriteString("<!DOCTYPE html><html><head></head><body>")
	} else {
		sb.WriteString("<!DOCTYPE html><html><head><title>" + g.words(6) + "</title></head><body>")
	}
	switch place {
	case "solo":
		sb.WriteString(gen)
	case "lead":
		sb.WriteString(g.linkCluster(4))
		sb.WriteString(`<div>` + gen + g.para(45) + g.para(40) + g.para(42) + `</div>`)
		sb.WriteString(g.linkCluster(3))
	case "tail":
		sb.WriteString(g.linkCluster(4))
		sb.WriteString(`<div>` + g.para(45) + g.para(40) + g.para(42) + gen + `</div>`)
		sb.WriteString(g.linkCluster(3))
	case "chrome":
		// generated content outside the story, between link clusters
		sb.WriteString(g.linkCluster(4) + gen)
		sb.WriteString(`<div>` + g.para(45) + g.para(40) + g.para(42) + `</div>`)
		sb.WriteString(g.linkCluster(3))
	case "bodymid":
		// the story sits directly in the body, without a wrapper: what is generated has the body as its parent
		sb.WriteString(g.linkCluster(4))
		sb.WriteString(g.para(45) + g.para(40) + gen + g.para(42))
		sb.WriteString(g.linkCluster(3))
	default: // "mid"
		sb.WriteString(g.linkCluster(4))
		sb.WriteString(`<div>` + g.para(45) + g.para(40) + gen + g.para(42) + `</div>`)
		sb.WriteString(g.linkCluster(3))
	}
	sb.WriteString("</body></html>")
	// two bare texts next to each other must not form one word already in the source
	return rxGluedTokens.ReplaceAllString(rxGluedTokens.ReplaceAllString(sb.String(), "$1 $2"), "$1 $2")
}

var rxGluedTokens = regexp.MustCompile(`(zq\d+)(zq\d)`)

var docPlaces = []string{"mid", "solo", "lead", "tail", "chrome", "bodymid"}
