----------------------------- MODULE DocFilters -----------------------------
(***************************************************************************)
(* The three document filters that run on the element list after text      *)
(* classification (internal/extractor/content.go ExtractContent, in this   *)
(* order):                                                                 *)
(*   Relevant   internal/filter/docfilter/relevant-elements.go             *)
(*   LeadImage  internal/filter/docfilter/lead-image.go                    *)
(*   Nested     internal/filter/docfilter/nested-element.go                *)
(*                                                                         *)
(* An element is [k, c] : kind and content flag, tags also carry           *)
(* [name, start].  Relevant and Nested are transcribed as the sequential   *)
(* scans they are (state: inContent / the stack, stackMark and isContent); *)
(* LeadImage depends on DOM distances that the abstraction does not see,   *)
(* so it is specified by what it MAY do: promote at most one image or      *)
(* figure that precedes the last content text and every content image.     *)
(*                                                                         *)
(* TLC checks, for every element sequence of the bound (all balanced tag   *)
(* nestings x all leaves x all flags):                                     *)
(*   C08  media content after Relevant  <=>  nearest preceding text is     *)
(*        content (or a content element precedes it with no text between)  *)
(*   C07  a tag pair is content after Nested  <=>  it encloses a content   *)
(*        non-tag element; start and end tag agree                         *)
(* The trace specification replays the element lists recorded by the hooks *)
(* before and after each filter through the same operators.                *)
(***************************************************************************)
EXTENDS Integers, Sequences, FiniteSets, TLC

MediaKinds == {"image", "figure", "video", "embed", "table"}
IsTag(e)   == e.k = "tag"
IsText(e)  == e.k = "text"
IsMedia(e) == e.k \in MediaKinds

SetC(es, i, v) == [es EXCEPT ![i].c = v]

\* ---- RelevantElements.Process -----------------------------------------------
RECURSIVE RelScan(_, _, _)
RelScan(es, i, inContent) ==
    IF i > Len(es) THEN es
    ELSE LET e == es[i] IN
         IF e.c THEN RelScan(es, i + 1, TRUE)
         ELSE IF IsText(e) THEN RelScan(es, i + 1, FALSE)
         ELSE IF inContent THEN RelScan(SetC(es, i, TRUE), i + 1, TRUE)
         ELSE RelScan(es, i + 1, FALSE)
Relevant(es) == RelScan(es, 1, FALSE)

\* what C08 demands of the result, written from the statement: a non-text element is content
\* iff the nearest preceding text element is content
PrevText(es, i) == LET S == {j \in 1..(i-1) : IsText(es[j])} IN IF S = {} THEN 0 ELSE CHOOSE j \in S : \A x \in S : x <= j
MediaFollowsText(before, after) ==
    \A i \in 1..Len(after) :
        (~IsText(after[i]) /\ ~before[i].c) =>
            (after[i].c <=> (PrevText(after, i) # 0 /\ after[PrevText(after, i)].c))

\* ---- LeadImageFinder.Process (what it may do) ---------------------------------
LastContentText(es) == LET S == {j \in 1..Len(es) : IsText(es[j]) /\ es[j].c} IN IF S = {} THEN 0 ELSE CHOOSE j \in S : \A x \in S : x <= j
FirstContentImage(es) == LET S == {j \in 1..Len(es) : es[j].k \in {"image", "figure"} /\ es[j].c}
                         IN IF S = {} THEN Len(es) + 1 ELSE CHOOSE j \in S : \A x \in S : j <= x
LeadCandidates(es) ==
    IF LastContentText(es) = 0 THEN {}
    ELSE {i \in 1..Len(es) : es[i].k \in {"image", "figure"} /\ ~es[i].c
                              /\ i < LastContentText(es) /\ i < FirstContentImage(es)}
LeadImageMay(before, after) ==
    /\ Len(after) = Len(before)
    /\ LET changed == {i \in 1..Len(before) : after[i] # before[i]}
       IN  /\ Cardinality(changed) <= 1
           /\ \A i \in changed : i \in LeadCandidates(before) /\ after[i] = [before[i] EXCEPT !.c = TRUE]

\* ---- NestedElementRetainer.Process ----------------------------------------------
\* state of the scan: the list, the position, isContent, stackMark, the stack of start-tag positions
RECURSIVE NestScan(_, _, _, _, _)
NestScan(es, i, isContent, mark, stack) ==
    IF i > Len(es) THEN es
    ELSE LET e == es[i] IN
         IF ~IsTag(e) THEN NestScan(es, i + 1, isContent \/ e.c, mark, stack)
         ELSE IF e.start THEN NestScan(SetC(es, i, isContent), i + 1, FALSE, mark, Append(stack, i))
         ELSE IF stack = <<>> THEN es          \* unbalanced end tag: the code would index an empty stack (C01)
         ELSE LET s      == stack[Len(stack)]
                  rest   == SubSeq(stack, 1, Len(stack) - 1)
                  cont   == isContent \/ mark >= Len(rest)
                  mark2  == IF cont THEN Len(rest) - 1 ELSE mark
                  was    == es[s].c
                  es2    == SetC(SetC(es, s, cont), i, cont)
              IN  NestScan(es2, i + 1, was, mark2, rest)
Nested(es) == NestScan(es, 1, FALSE, -1, <<>>)

\* the matching end tag of the start tag at i (the list is balanced)
RECURSIVE MatchFrom(_, _, _)
MatchFrom(es, j, depth) ==
    IF j > Len(es) THEN 0
    ELSE IF IsTag(es[j]) /\ es[j].start THEN MatchFrom(es, j + 1, depth + 1)
    ELSE IF IsTag(es[j]) THEN (IF depth = 0 THEN j ELSE MatchFrom(es, j + 1, depth - 1))
    ELSE MatchFrom(es, j + 1, depth)
Match(es, i) == MatchFrom(es, i + 1, 0)

Balanced(es) ==
    LET RECURSIVE f(_, _)
        f(j, d) == IF j > Len(es) THEN d = 0
                   ELSE IF IsTag(es[j]) THEN (IF es[j].start THEN f(j + 1, d + 1) ELSE d > 0 /\ f(j + 1, d - 1))
                   ELSE f(j + 1, d)
    IN  f(1, 0)

\* what C07 demands of the result, written from the statement
PairContentIffEnclosesContent(before, after) ==
    \A i \in 1..Len(after) : (IsTag(after[i]) /\ after[i].start) =>
        LET j == Match(after, i)
        IN  /\ j # 0
            /\ after[i].c = after[j].c                                              \* start and end agree
            /\ after[i].c <=> \E x \in (i+1)..(j-1) : ~IsTag(before[x]) /\ before[x].c  \* content inside
NonTagsUntouched(before, after) ==
    /\ Len(after) = Len(before)
    /\ \A i \in 1..Len(before) : ~IsTag(before[i]) => after[i] = before[i]
=============================================================================
