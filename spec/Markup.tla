------------------------------- MODULE Markup -------------------------------
(***************************************************************************)
(* Property C14: the three markup sources (OpenGraph, schema.org           *)
(* microdata, IE Reading View) and the combining parser                    *)
(* (internal/markup/parser.go) next to the precedence rule as the property *)
(* states it.                                                              *)
(*                                                                         *)
(*  - A page is described by a parameter record p: for each source its     *)
(*    SHAPE (what kind of markup block the page carries), a PATTERN (which *)
(*    of the fields the block may carry are present / empty / absent) and  *)
(*    the resulting status of every MarkupInfo field and article           *)
(*    sub-field in that source; plus the opt-out state and the order of    *)
(*    the three blocks in the document.  harness/fam_markup.go builds the  *)
(*    real page from p.                                                    *)
(*  - Abs(p) is the "provides" abstraction: per source, which field has a  *)
(*    non-empty value, whether the OpenGraph block is complete, whether a  *)
(*    schema.org Article item exists.  The driver re-measures the same     *)
(*    abstraction on the parsed page.                                      *)
(*  - The MACHINE mirrors the code: ParseOG / ParseSchema / ParseIE build  *)
(*    the accessor list in fixed order (OpenGraph only when its four       *)
(*    required properties exist), Assemble asks every getter for the first *)
(*    non-empty answer, takes the article record from the first accessor   *)
(*    returning one (the IE accessor always does) and empties everything   *)
(*    on opt-out.                                                          *)
(*  - Expected(x, f) / ExpectedArt(x) are written from the property text   *)
(*    only.  Where the text leaves two readings open (does an og:type      *)
(*    other than "article" provide a "type"?  does an article object       *)
(*    without any property count as "having" an article sub-record?) the   *)
(*    expectation is the SET of outcomes either reading allows.            *)
(*                                                                         *)
(* TLC checks machine result \in expectation for every enumerated p and    *)
(* dumps every p as a case.                                                *)
(***************************************************************************)
EXTENDS Integers, Sequences, FiniteSets, TLC, Json

CONSTANTS OGShapes, SCShapes, Pats, OptOuts, Orders, Rels, Dump

AllOGShapes == {"none", "website", "article", "profile", "noTitle", "noType", "noUrl", "noImage"}
AllSCShapes == {"none", "article", "nested", "unsupported", "inUnsupported"}
AllPats     == {"P", "A", "E", "U", "S", "R0", "R1", "R2", "Q0", "Q1", "Q2"}
AllOptOuts  == {"absent", "true", "other"}
AllImgs     == {"none", "prop", "object", "representative", "associated", "imageItem"}
\* rel="author" anchors / links outside any item (the schema.org parser's last resort for the author):
\* none, one with text, only ones without text; and which property of the Article item names its author
AllRels     == {"none", "present", "empty"}
AllWhos     == {"author", "creator"}
ASSUME /\ OGShapes \subseteq AllOGShapes /\ SCShapes \subseteq AllSCShapes /\ Pats \subseteq AllPats
       /\ OptOuts \subseteq AllOptOuts /\ Orders \subseteq 0..5 /\ Rels \subseteq AllRels

Status    == {"absent", "empty", "present"}
Scalar    == {"title", "url", "description", "publisher", "copyright", "author"}  \* values carry their origin
Fields    == Scalar \cup {"type", "images"}
ArtFields == {"publishedTime", "modifiedTime", "expirationTime", "section", "authors"}
Sources   == <<"og", "schema", "ie">>                  \* the documented precedence
Origins   == {"og", "schema", "ie", "none"}

(***************************************************************************)
(* Patterns: P/A/E = every free field present/absent/empty; U = only the   *)
(* author(s) present; S = only the section; Rk and Qk                                            *)
(* rotate present/empty/absent over the fields (by index mod 3, resp. by   *)
(* index div 3), so that the three sources together run through all 27     *)
(* status triples of every field.                                          *)
(***************************************************************************)
Idx == [title |-> 0, url |-> 1, description |-> 2, publisher |-> 3, copyright |-> 4, author |-> 5,
        images |-> 6, publishedTime |-> 7, modifiedTime |-> 8, expirationTime |-> 9, section |-> 10,
        authors |-> 11, type |-> 12]
Rot == <<"present", "empty", "absent">>
St(pat, name) ==
    CASE pat = "P"  -> "present"
      [] pat = "A"  -> "absent"
      [] pat = "E"  -> "empty"
      [] pat = "U"  -> IF name \in {"authors", "author"} THEN "present" ELSE "absent"    \* nothing but the author(s)
      [] pat = "S"  -> IF name = "section" THEN "present" ELSE "absent"                \* nothing but the section
      [] pat = "R0" -> Rot[(Idx[name] % 3) + 1]
      [] pat = "R1" -> Rot[((Idx[name] + 1) % 3) + 1]
      [] pat = "R2" -> Rot[((Idx[name] + 2) % 3) + 1]
      [] pat = "Q0" -> Rot[((Idx[name] \div 3) % 3) + 1]
      [] pat = "Q1" -> Rot[(((Idx[name] \div 3) + 1) % 3) + 1]
      [] pat = "Q2" -> Rot[(((Idx[name] \div 3) + 2) % 3) + 1]
NoEmpty(s) == IF s = "empty" THEN "absent" ELSE s     \* list-valued fields: no "empty" form is generated

\* ---- OpenGraph -----------------------------------------------------------
OGType(shape) == CASE shape \in {"none", "noType"} -> "none"
                   [] shape = "website" -> "website"
                   [] shape = "profile" -> "profile"
                   [] OTHER -> "article"
OGF(shape, pat) ==
    [f \in Fields |->
        IF shape = "none" THEN "absent"
        ELSE CASE f = "title"  -> IF shape = "noTitle" THEN "absent" ELSE "present"
               [] f = "type"   -> IF shape = "noType"  THEN "absent" ELSE "present"
               [] f = "url"    -> IF shape = "noUrl"   THEN "absent" ELSE "present"
               [] f = "images" -> IF shape = "noImage" THEN "absent" ELSE "present"
               [] f \in {"description", "publisher"} -> St(pat, f)
               [] f = "author" -> IF OGType(shape) = "profile" THEN St(pat, f) ELSE "absent"   \* profile:first_name + last_name
               [] OTHER -> "absent"]                                                          \* no copyright in OpenGraph
OGA(shape, pat) ==
    [a \in ArtFields |->
        IF OGType(shape) # "article" THEN "absent"                 \* article:* only on article pages
        ELSE IF a = "authors" THEN NoEmpty(St(pat, a)) ELSE St(pat, a)]
OGConfigs ==
    {[shape |-> "none", pat |-> "A"]}
    \cup {[shape |-> s, pat |-> q] : s \in OGShapes \cap {"website", "article", "profile"}, q \in Pats}
    \cup {[shape |-> s, pat |-> q] : s \in OGShapes \cap {"noTitle", "noType", "noUrl", "noImage"}, q \in Pats \cap {"P", "R0"}}
OGRec(c) == [shape |-> c.shape, pat |-> c.pat, img |-> "none", f |-> OGF(c.shape, c.pat), a |-> OGA(c.shape, c.pat)]

\* ---- schema.org ----------------------------------------------------------
SCHasArticle(shape) == shape \in {"article", "nested", "inUnsupported"}
DefaultImg(shape) == CASE shape = "article" -> "prop" [] shape = "nested" -> "associated" [] OTHER -> "imageItem"
\* the author: the Article item's author (or creator) property, else the first rel=author element with text
SCF(shape, pat, img, rel) ==
    [f \in Fields |->
        CASE f = "images" -> IF img = "none" THEN "absent" ELSE "present"
          [] f = "type"   -> IF SCHasArticle(shape) THEN "present" ELSE "absent"
          [] f = "author" -> IF SCHasArticle(shape) /\ St(pat, f) = "present" THEN "present"
                             ELSE IF rel = "present" THEN "present"
                             ELSE IF rel = "empty" THEN "empty"
                             ELSE IF SCHasArticle(shape) THEN St(pat, f) ELSE "absent"
          [] OTHER        -> IF SCHasArticle(shape) THEN St(pat, f) ELSE "absent"]
SCA(shape, pat) ==
    [a \in ArtFields |->
        IF ~SCHasArticle(shape) THEN "absent"
        ELSE CASE a = "expirationTime" -> "absent"              \* schema.org Article has none
               [] a = "authors" -> St(pat, "author")            \* the article's author
               [] OTHER -> St(pat, a)]
SCBase ==
    {[shape |-> s, pat |-> "A", img |-> i] : s \in SCShapes \cap {"none"}, i \in {"none", "object", "representative"}}
    \cup {[shape |-> s, pat |-> "A", img |-> i] : s \in SCShapes \cap {"unsupported"}, i \in {"none", "object"}}
    \cup {[shape |-> s, pat |-> "P", img |-> i] : s \in {t \in SCShapes : SCHasArticle(t)}, i \in AllImgs}
    \cup {[shape |-> s, pat |-> q, img |-> IF NoEmpty(St(q, "images")) = "present" THEN DefaultImg(s) ELSE "none"] :
             s \in {t \in SCShapes : SCHasArticle(t)}, q \in Pats \ {"P"}}
SCVariants == {v \in {[rel |-> "none", who |-> "author"], [rel |-> "present", who |-> "creator"],
                          [rel |-> "present", who |-> "author"], [rel |-> "empty", who |-> "author"]} : v.rel \in Rels}
SCConfigs == {[shape |-> cv[1].shape, pat |-> cv[1].pat, img |-> cv[1].img, rel |-> cv[2].rel, who |-> cv[2].who] :
                 cv \in {pr \in SCBase \X SCVariants : IF SCHasArticle(pr[1].shape) THEN ~(pr[2].rel = "present" /\ pr[2].who = "author")
                                                  ELSE pr[2].who = "author"}}
SCRec(c) == [shape |-> c.shape, pat |-> c.pat, img |-> c.img, rel |-> c.rel, who |-> c.who,
             f |-> SCF(c.shape, c.pat, c.img, c.rel), a |-> SCA(c.shape, c.pat)]

\* ---- IE Reading View -----------------------------------------------------
IEF(pat) ==
    [f \in Fields |->
        CASE f \in {"title", "publisher", "copyright", "author"} -> St(pat, f)
          [] f = "images" -> NoEmpty(St(pat, f))
          [] OTHER -> "absent"]                                   \* no type, url, description tags
IEA(pat) ==
    [a \in ArtFields |->
        CASE a = "publishedTime" -> St(pat, a)                    \* dateline / displaydate
          [] a = "authors" -> St(pat, "author")                   \* the byline
          [] OTHER -> "absent"]
IERec(q) == [shape |-> "tags", pat |-> q, img |-> "none", f |-> IEF(q), a |-> IEA(q)]

\* reduced products for the opt-out states (everything must be empty / opt-out must not matter)
Small(og, sc) == /\ og.pat \in {"P", "A"}
                 /\ og.shape \in {"none", "website", "article", "profile", "noImage"}
                 /\ sc.pat \in {"P", "A"} /\ sc.img \in {"none", "prop", "associated", "object"}
                 /\ sc.shape \in {"none", "article", "nested", "unsupported"}
                 /\ sc.rel \in {"none", "present"} /\ sc.who = "author"

Params ==
    {[og |-> OGRec(o), schema |-> SCRec(s), ie |-> IERec(q), optout |-> oo, order |-> ord] :
        o \in OGConfigs, s \in SCConfigs, q \in Pats, oo \in OptOuts, ord \in Orders}

Admitted(p) == p.optout = "absent" \/ Small(p.og, p.schema)

(***************************************************************************)
(* The "provides" abstraction of a page.                                   *)
(***************************************************************************)
Has(rec) == [f \in Fields |-> rec.f[f] = "present"]
HasA(rec) == [a \in ArtFields |-> rec.a[a] = "present"]
Abs(p) ==
    [optout |-> p.optout = "true",
     og     |-> [valid |-> \A r \in {"title", "type", "url", "images"} : p.og.f[r] = "present",
                 type  |-> OGType(p.og.shape), article |-> OGType(p.og.shape) = "article",
                 f |-> Has(p.og), a |-> HasA(p.og)],
     schema |-> [valid |-> TRUE, type |-> IF SCHasArticle(p.schema.shape) THEN "article" ELSE "none",
                 article |-> SCHasArticle(p.schema.shape),
                 f |-> Has(p.schema), a |-> HasA(p.schema)],
     ie     |-> [valid |-> TRUE, type |-> "none", article |-> FALSE, f |-> Has(p.ie), a |-> HasA(p.ie)]]

(***************************************************************************)
(* The property, from its text.  x is an abstraction record.               *)
(*  "Each MarkupInfo field comes from the highest-precedence markup source *)
(*   that provides a non-empty value - OpenGraph (only if its required     *)
(*   title, type, url and image are all present), then schema.org          *)
(*   microdata, then IE Reading View tags - and is empty if no source      *)
(*   provides it; the article sub-record is taken wholesale from the first *)
(*   source that has one.  If the page opts out with the IE_RM_OFF meta    *)
(*   tag, MarkupInfo is entirely empty."                                   *)
(***************************************************************************)
Eligible(x, s)  == s # "og" \/ x.og.valid
Providers(x, f) == {k \in 1..3 : Eligible(x, Sources[k]) /\ x[Sources[k]].f[f]}
Min(S)          == CHOOSE k \in S : \A j \in S : k <= j
Expected(x, f)  == IF x.optout \/ Providers(x, f) = {} THEN "none" ELSE Sources[Min(Providers(x, f))]

\* "type": the value is the word Article whatever the source, so only emptiness is observable.
\* An article-typed OpenGraph block or a schema.org Article item provide it; whether another
\* og:type does is left open by the text: both outcomes allowed.
TypeSure(x)  == (x.og.valid /\ x.og.type = "article") \/ x.schema.article
TypeMaybe(x) == x.og.valid /\ x.og.f["type"]
ExpectedType(x) == IF x.optout THEN {"none"}
                   ELSE IF TypeSure(x) THEN {"article"}
                   ELSE IF TypeMaybe(x) THEN {"article", "none", "other"}
                   ELSE {"none"}

\* the article sub-record
HasArt(x, s) == IF ~Eligible(x, s) THEN "no"
                ELSE IF \E a \in ArtFields : x[s].a[a] THEN "yes"
                ELSE IF x[s].article THEN "unclear"       \* an article object with no property at all
                ELSE "no"
ArtOf(x, s) == [a \in ArtFields |-> IF x[s].a[a] THEN s ELSE "none"]
NoArt       == [a \in ArtFields |-> "none"]
RECURSIVE ArtFrom(_, _)
ArtFrom(x, k) == IF k > 3 THEN {NoArt}
                 ELSE LET h == HasArt(x, Sources[k])
                      IN  IF h = "yes" THEN {ArtOf(x, Sources[k])}
                          ELSE IF h = "unclear" THEN {NoArt} \cup ArtFrom(x, k + 1)
                          ELSE ArtFrom(x, k + 1)
ExpectedArt(x) == IF x.optout THEN {NoArt} ELSE ArtFrom(x, 1)

(***************************************************************************)
(* The machine (internal/markup/parser.go).                                *)
(***************************************************************************)
VARIABLES p, pc, acc, out
vars == <<p, pc, acc, out>>

NoOut == [f |-> [f \in Scalar \cup {"images"} |-> "none"], type |-> "none", art |-> NoArt]

Init == /\ p \in {q \in Params : Admitted(q)}
        /\ pc = "og" /\ acc = <<>> /\ out = NoOut

\* opengraph.NewParser: an error (parser dropped) unless title, type, url exist and the image list is not empty
ParseOG == /\ pc = "og"
           /\ LET x == Abs(p).og
              IN  acc' = IF x.f["title"] /\ x.f["type"] /\ x.f["url"] /\ x.f["images"]
                         THEN Append(acc, "og") ELSE acc
           /\ pc' = "schema" /\ UNCHANGED <<p, out>>

ParseSchema == /\ pc = "schema" /\ acc' = Append(acc, "schema") /\ pc' = "ie" /\ UNCHANGED <<p, out>>
ParseIE     == /\ pc = "ie" /\ acc' = Append(acc, "ie") /\ pc' = "assemble" /\ UNCHANGED <<p, out>>

\* the answer of accessor s to getter f: non-empty?
Answers(x, s, f) ==
    IF f = "type" THEN (IF s = "og" THEN x.og.type = "article" ELSE IF s = "schema" THEN x.schema.article ELSE FALSE)
    ELSE x[s].f[f]
\* accessor.Article(): OpenGraph nil when every article property is empty, schema.org nil
\* without an Article item, IE never nil
ArticleNil(x, s) == IF s = "og" THEN ~\E a \in ArtFields : x.og.a[a]
                    ELSE IF s = "schema" THEN ~x.schema.article
                    ELSE FALSE
First(seq, Ok(_)) == LET S == {k \in 1..Len(seq) : Ok(seq[k])}
                     IN  IF S = {} THEN "none" ELSE seq[Min(S)]

Assemble ==
    /\ pc = "assemble"
    /\ LET x == Abs(p)
           optOut == \E k \in 1..Len(acc) : acc[k] = "ie" /\ x.optout      \* only the IE accessor knows IE_RM_OFF
       IN  out' = IF optOut THEN NoOut
                  ELSE LET artSrc == First(acc, LAMBDA s : ~ArticleNil(x, s))
                       IN [f    |-> [f \in Scalar \cup {"images"} |-> First(acc, LAMBDA s : Answers(x, s, f))],
                           type |-> IF First(acc, LAMBDA s : Answers(x, s, "type")) = "none" THEN "none" ELSE "article",
                           art  |-> IF artSrc = "none" THEN NoArt ELSE ArtOf(x, artSrc)]
    /\ pc' = "done" /\ UNCHANGED <<p, acc>>

Next == ParseOG \/ ParseSchema \/ ParseIE \/ Assemble
Spec == Init /\ [][Next]_vars

\* ---- design-level checks --------------------------------------------------
TypeOK == /\ pc \in {"og", "schema", "ie", "assemble", "done"}
          /\ \A k \in 1..Len(acc) : acc[k] \in {"og", "schema", "ie"}
          /\ \A f \in DOMAIN out.f : out.f[f] \in Origins

\* the result of a record o agrees with the property for abstraction x
FieldOK(x, o, f) == o.f[f] = Expected(x, f)
TypeFieldOK(x, o) == o.type \in ExpectedType(x)
ArticleOK(x, o)  == o.art \in ExpectedArt(x)
OptOutOK(x, o)   == x.optout => o = NoOut

MachineMeetsProperty ==
    pc = "done" => LET x == Abs(p)
                   IN  /\ \A f \in Scalar \cup {"images"} : FieldOK(x, out, f)
                       /\ TypeFieldOK(x, out) /\ ArticleOK(x, out) /\ OptOutOK(x, out)

\* accessor order is the documented precedence, OpenGraph only when complete
AccessorOrder ==
    pc \in {"assemble", "done"} =>
        acc = SelectSeq(Sources, LAMBDA s : Eligible(Abs(p), s))

DumpCase == (Dump /\ pc = "done") => PrintT(<<"@@CASE", ToJson([p |-> p])>>)
=============================================================================
