----------------------------- MODULE Concurrent -----------------------------
(***************************************************************************)
(* Property C12 at design level: N concurrent calls of Apply, stepping     *)
(* through the pipeline phases of Distiller.tla, over SHARED objects (the  *)
(* caller's trees, the caller's Options values, the package-level          *)
(* variables) and PRIVATE per-call state.  Every phase has a footprint:    *)
(* what it reads and what it writes.  TLC explores every interleaving at   *)
(* phase granularity and checks                                            *)
(*    NoSharedWrite     - no phase of any call writes a shared object      *)
(*    SoloEquivalence   - every call returns what it returns when alone    *)
(* The toggles reintroduce the realistic ways to lose this: converting the *)
(* original tree instead of a clone, memoising in a package-level map,     *)
(* writing the fetched URL into the caller's Options.                      *)
(*                                                                         *)
(* A shared object is abstracted to a version number: a write bumps it, a  *)
(* read observes it; a result is the tuple of versions a call has read.    *)
(***************************************************************************)
EXTENDS Integers, Sequences, FiniteSets, TLC

CONSTANTS Calls,            \* call ids
          Trees, OptVals,   \* shared caller-owned objects
          UsesTree, UsesOpts, \* functions Calls -> Trees / OptVals
          ConvertOnOriginal, MemoInGlobal, WriteOptions   \* defect toggles

Phases == <<"root", "markup", "pass1", "pass2", "filters", "render", "title", "paginate", "return">>
NPh == Len(Phases)

\* footprint of a phase for call c: sets of shared objects read / written
Reads(c, ph) ==
    CASE ph \in {"root", "markup", "pass1", "pass2", "title", "paginate"} -> {<<"tree", UsesTree[c]>>, <<"global", 0>>}
      [] ph \in {"filters", "render"} -> {<<"global", 0>>}
      [] OTHER -> {}
    \cup (IF ph \in {"root", "paginate", "return"} THEN {<<"opts", UsesOpts[c]>>} ELSE {})

Writes(c, ph) ==
    (IF ConvertOnOriginal /\ ph \in {"pass1", "pass2"} THEN {<<"tree", UsesTree[c]>>} ELSE {})
    \cup (IF MemoInGlobal /\ ph = "pass1" THEN {<<"global", 0>>} ELSE {})
    \cup (IF WriteOptions /\ ph = "root" THEN {<<"opts", UsesOpts[c]>>} ELSE {})

Shared == {<<"tree", t>> : t \in Trees} \cup {<<"opts", o>> : o \in OptVals} \cup {<<"global", 0>>}

VARIABLES ver,      \* version of every shared object
          pc,       \* pc[c] \in 0..NPh : phases done
          seen,     \* seen[c] : sequence of <<object, version>> read so far
          wrote     \* set of <<call, object>> : shared writes that happened
vars == <<ver, pc, seen, wrote>>

Init == /\ ver = [s \in Shared |-> 0]
        /\ pc = [c \in Calls |-> 0]
        /\ seen = [c \in Calls |-> <<>>]
        /\ wrote = {}

SetToSeq(S) == LET RECURSIVE f(_)
                   f(T) == IF T = {} THEN <<>> ELSE LET x == CHOOSE y \in T : TRUE IN <<x>> \o f(T \ {x})
               IN f(S)

Step(c) ==
    /\ pc[c] < NPh
    /\ LET ph == Phases[pc[c] + 1]
           rd == Reads(c, ph)
           wr == Writes(c, ph)
       IN  /\ seen' = [seen EXCEPT ![c] = @ \o [i \in 1..Cardinality(rd) |->
                                                  <<SetToSeq(rd)[i], ver[SetToSeq(rd)[i]]>>]]
           /\ ver' = [s \in Shared |-> IF s \in wr THEN ver[s] + 1 ELSE ver[s]]
           /\ wrote' = wrote \cup {<<c, s>> : s \in wr}
    /\ pc' = [pc EXCEPT ![c] = @ + 1]

Next == \E c \in Calls : Step(c)
Spec == Init /\ [][Next]_vars /\ WF_vars(Next)

\* what call c reads when it runs alone from the initial state: every version as at Init,
\* except its own writes (a call always sees its own effects)
RECURSIVE SoloRun(_, _, _, _)
SoloRun(c, k, v, acc) ==
    IF k > NPh THEN acc
    ELSE LET ph == Phases[k]
             rd == SetToSeq(Reads(c, ph))
             v2 == [s \in Shared |-> IF s \in Writes(c, ph) THEN v[s] + 1 ELSE v[s]]
         IN  SoloRun(c, k + 1, v2, acc \o [i \in 1..Len(rd) |-> <<rd[i], v[rd[i]]>>])
Solo(c) == SoloRun(c, 1, [s \in Shared |-> 0], <<>>)

NoSharedWrite   == wrote = {}
SoloEquivalence == \A c \in Calls : pc[c] = NPh => seen[c] = Solo(c)
AllReturn       == <>(\A c \in Calls : pc[c] = NPh)
=============================================================================
