------------------------------- MODULE Render -------------------------------
(***************************************************************************)
(* The rendering of the flagged element list into the distilled HTML       *)
(*   internal/webdoc/document.go   Document.GenerateOutput                 *)
(*   internal/webdoc/text.go       Text.GenerateOutput                     *)
(*   internal/domutil/tree-clone.go  TreeClone                             *)
(*   internal/webdoc/tag.go        Tag.GenerateOutput                      *)
(* on top of Convert.tla (which produces the element list).                *)
(*                                                                         *)
(* The distilled HTML is abstracted to a sequence of items                 *)
(*    [t |-> "open", k]  [t |-> "close", k]   an element of kind k          *)
(*    [t |-> "w", n]                            the words of text node n    *)
(*    [t |-> "m", k]                            a media element / table     *)
(* A Text element is rendered as the clone of the smallest subtree holding *)
(* its text nodes (TreeClone: only the branches that lead to them), then   *)
(*   - a lone text node is wrapped into a clone of its parent,             *)
(*   - an inline root is wrapped into clones of its ancestors until the    *)
(*     root is a block (or body is reached),                               *)
(*   - a root that can be nested (ul, ol, li, blockquote, pre) contributes *)
(*     its INNER html only, because the Tag elements around the text       *)
(*     already emit those tags.                                            *)
(* A javascript: anchor with a single text child was replaced by that text *)
(* during the walk (Convert!Visit), so it is transparent here.             *)
(*                                                                         *)
(* Checked by TLC for every document of the bound and EVERY assignment of  *)
(* content flags to the text and media elements (tag pairs get the flag    *)
(* DocFilters!Nested computes):                                            *)
(*   RenderBalanced      open / close items nest properly                  *)
(*   RenderOnceInOrder   every rendered text node occurs once, in          *)
(*                       document order                            (C02)   *)
(*   RenderOnlyContent   exactly the word nodes of content Text elements   *)
(*                       are rendered                              (C09)   *)
(*   RenderChains        the ul/ol/li/blockquote/pre items open above a    *)
(*                       rendered text node are its chain in the source    *)
(*                                                                 (C07)   *)
(***************************************************************************)
EXTENDS Convert

CONSTANT InnerForNestRoots   \* FALSE: a root that can be nested is emitted with its own tags (a defect: the Tag elements emit them too)

\* ---- the working tree after the walk: rewritten javascript: anchors are gone ----
Rewritten(doc, i) ==
    /\ doc[i].k = "AJ"
    /\ Cardinality(Children(doc, i)) = 1
    /\ \A j \in Children(doc, i) : doc[j].k \in TextLike
\* ancestors of i in the working tree, outermost first
WAnc(doc, i) == SelectSeq(AncestorSeq(doc, i), LAMBDA a : ~Rewritten(doc, a))
WParent(doc, i) == LET a == WAnc(doc, i) IN IF a = <<>> THEN 0 ELSE a[Len(a)]

InlineK == {"INL", "A", "AJ", "FONT"}

Item(t, k, n) == [t |-> t, k |-> k, n |-> n]
Open(k)  == Item("open", k, 0)
Close(k) == Item("close", k, 0)

\* the kind an element is rendered as: html / body become a div; a marked div is a div, a javascript: anchor an anchor
OutKind(k) == CASE k \in {"BODY", "MRK"} -> "DIV" [] k = "AJ" -> "A" [] OTHER -> k

\* ---- TreeClone -------------------------------------------------------------------
\* nearest common ancestor (in the working tree) of a set of nodes; 0 = above the forest
Common(doc, N) ==
    LET first == CHOOSE n \in N : \A m \in N : n <= m
        cand  == {a \in {WAnc(doc, first)[x] : x \in 1..Len(WAnc(doc, first))} : \A n \in N : a \in Ancestors(doc, n)}
    IN  IF Cardinality(N) = 1 THEN first
        ELSE IF cand = {} THEN 0 ELSE CHOOSE a \in cand : \A b \in cand : b <= a

Holds(doc, i, N) == i \in N \/ \E n \in N : i \in Ancestors(doc, n)

\* items of the clone of the subtree at i restricted to the branches that lead to N
RECURSIVE CloneAt(_, _, _)
CloneAt(doc, i, N) ==
    IF i \in N THEN (IF WordNode(doc, i) THEN <<Item("w", "", i)>> ELSE << >>)
    ELSE LET kids == SelectSeq([x \in 1..(SubtreeEnd(doc, i) - i) |-> i + x],
                               LAMBDA j : doc[j].d = doc[i].d + 1 /\ Holds(doc, j, N))
             RECURSIVE cat(_)
             cat(q) == IF q = << >> THEN << >> ELSE CloneAt(doc, Head(q), N) \o cat(Tail(q))
             inner == cat(kids)
         IN  IF Rewritten(doc, i) THEN inner
             ELSE <<Open(OutKind(doc[i].k))>> \o inner \o <<Close(OutKind(doc[i].k))>>

\* several top-level roots (the forest has no common element): each is cloned on its own
RECURSIVE CloneForest(_, _, _)
CloneForest(doc, roots, N) ==
    IF roots = << >> THEN << >> ELSE CloneAt(doc, Head(roots), N) \o CloneForest(doc, Tail(roots), N)

Wrap(k, items) == <<Open(OutKind(k))>> \o items \o <<Close(OutKind(k))>>

\* the chain of wrappers added around an inline root r: its working-tree ancestors from the
\* nearest one outwards, up to and including the first that is not inline (BODY is never used)
RECURSIVE Climb(_, _, _)
Climb(doc, anc, items) ==       \* anc: remaining ancestors, nearest LAST
    IF anc = << >> THEN [items |-> items, root |-> "INLINE"]      \* body reached: the inline root stays
    ELSE LET a == anc[Len(anc)] IN
         IF doc[a].k = "BODY" THEN [items |-> items, root |-> "INLINE"]
         ELSE IF doc[a].k \in InlineK THEN Climb(doc, Front(anc), Wrap(doc[a].k, items))
         ELSE [items |-> Wrap(doc[a].k, items), root |-> doc[a].k]

Strip(items) == SubSeq(items, 2, Len(items) - 1)        \* inner html of a rendered root

\* Text.GenerateOutput of the Text element holding the text nodes `nodes` (a sequence)
RenderText(doc, nodes) ==
    LET N  == {nodes[x] : x \in 1..Len(nodes)}
        c  == Common(doc, N)
    IN  IF ~\E n \in N : WordNode(doc, n) THEN << >>
        ELSE IF c \in N
        THEN \* a lone text node: a clone of its parent goes around it, then the inline climb from there
             LET p == WParent(doc, c)
                 w == <<Item("w", "", c)>>
             IN  IF p = 0 THEN Wrap("DIV", w)        \* directly in (the implicit) body: body becomes a div
                 ELSE LET k == doc[p].k
                          first == Wrap(k, w)
                      IN  IF k = "BODY" THEN first
                          ELSE IF k \in InlineK
                          THEN LET r == Climb(doc, WAnc(doc, p), first)
                               IN  IF r.root \in NestKinds THEN Strip(r.items) ELSE r.items
                          ELSE IF k \in NestKinds THEN w ELSE first
        ELSE IF c = 0                  \* the common ancestor is the (implicit) body: it becomes a div
        THEN LET tops == SelectSeq([x \in 1..Len(doc) |-> x], LAMBDA j : doc[j].d = 1 /\ Holds(doc, j, N))
             IN  Wrap("DIV", CloneForest(doc, tops, N))
        ELSE LET k == doc[c].k
                 whole == CloneAt(doc, c, N)
             IN  IF k \in InlineK
                 THEN LET r == Climb(doc, WAnc(doc, c), whole)
                      IN  IF r.root \in NestKinds THEN Strip(r.items) ELSE r.items
                 ELSE IF k \in NestKinds /\ InnerForNestRoots THEN Strip(whole) ELSE whole

\* one element of the list
RenderElem(doc, e) ==
    CASE e.t = "text"  -> RenderText(doc, e.nodes)
      [] e.t = "tag"   -> IF e.start THEN <<Open(e.k)>> ELSE <<Close(e.k)>>
      [] OTHER         -> <<Item("m", IF e.k = "FIGL" THEN "FIG" ELSE e.k, 0)>>

\* Document.GenerateOutput(false): the content elements in list order
RECURSIVE RenderFrom(_, _, _, _)
RenderFrom(doc, es, flags, i) ==
    IF i > Len(es) THEN << >>
    ELSE (IF flags[i] THEN RenderElem(doc, es[i]) ELSE << >>) \o RenderFrom(doc, es, flags, i + 1)
Render(doc, es, flags) == RenderFrom(doc, es, flags, 1)

\* ---- properties of a rendered sequence -------------------------------------------------
RECURSIVE BalancedFrom(_, _, _)
BalancedFrom(out, i, stack) ==
    IF i > Len(out) THEN stack = << >>
    ELSE IF out[i].t = "open" THEN BalancedFrom(out, i + 1, Append(stack, out[i].k))
    ELSE IF out[i].t = "close" THEN stack # << >> /\ stack[Len(stack)] = out[i].k /\ BalancedFrom(out, i + 1, Front(stack))
    ELSE BalancedFrom(out, i + 1, stack)
RenderBalanced(out) == BalancedFrom(out, 1, << >>)

WordItems(out) == SelectSeq(out, LAMBDA x : x.t = "w")
RenderOnceInOrder(out) == \A a, b \in 1..Len(WordItems(out)) : a < b => WordItems(out)[a].n < WordItems(out)[b].n

ContentWordNodes(doc, es, flags) ==
    {n \in 1..Len(doc) : WordNode(doc, n) /\ \E i \in 1..Len(es) : flags[i] /\ es[i].t = "text"
                                              /\ \E x \in 1..Len(es[i].nodes) : es[i].nodes[x] = n}
RenderOnlyContent(doc, es, flags, out) ==
    {WordItems(out)[a].n : a \in 1..Len(WordItems(out))} = ContentWordNodes(doc, es, flags)

\* the nest kinds open at position i of the output, outermost first
OpenNestAt(out, i) ==
    LET RECURSIVE f(_, _)
        f(j, st) == IF j = i THEN st
                    ELSE IF out[j].t = "open" THEN f(j + 1, Append(st, out[j].k))
                    ELSE IF out[j].t = "close" THEN f(j + 1, IF st = << >> THEN st ELSE Front(st))
                    ELSE f(j + 1, st)
    IN  SelectSeq(f(1, << >>), LAMBDA k : k \in NestKinds)
RenderChains(doc, out) ==
    \A i \in 1..Len(out) : out[i].t = "w" => OpenNestAt(out, i) = NestChain(doc, out[i].n)
=============================================================================
