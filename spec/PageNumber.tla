----------------------------- MODULE PageNumber -----------------------------
(***************************************************************************)
(* The page-number pagination finder, transcribed from                     *)
(*   internal/pagination/number.go            (FindOutlink, FindPagination)*)
(*   internal/pagination/info/monotonic-info.go   (AddGroup, AddPageInfo)  *)
(*   internal/pagination/parser/param-detector.go (DetectParamInfo)        *)
(*   internal/pagination/parser/detection-state.go                         *)
(*   internal/pagination/info/page-link-info.go   (Evaluate, LinearFormula,*)
(*                                                 PageNumbersState)       *)
(*   internal/pagination/info/page-numbers-state.go (isPageNumberSequence) *)
(*   internal/pagination/info/page-param-info.go  (CompareTo, first page   *)
(*                                      insertion, DetermineNextPagingURL) *)
(*                                                                         *)
(* INPUT.  The pager as the finder reads it: a sequence of items           *)
(*    [t |-> "brk"]                    text or anchor that is no number    *)
(*    [t |-> "num", n, u]              a number; u = NoURL for plain text  *)
(* and the page URL.  URLs are abstract:                                   *)
(*    grid(x, y)   https://host/zqs/x/y     two numeric path components    *)
(*    one(y)       https://host/zqs/view/y  one numeric path component     *)
(*    file(y)      https://host/zqs/view-y.html   number inside a component *)
(*    q(y)         https://host/zqs/view?pg=y      one numeric query value  *)
(*    q2(x, y)     https://host/zqs/view?pg=x&x=y  two numeric query values *)
(*    base         the same without number  (https://host/zqs[/view[.html]])*)
(*    js, empty    javascript: / empty href (kept for their number only)   *)
(* A grid URL yields two page patterns (place holder in x, keyed by y, and *)
(* place holder in y, keyed by x), which is what makes several candidates  *)
(* compete within one group of numbers.                                    *)
(*                                                                         *)
(* MACHINE.  Scan (items -> monotonic groups) ; for every group BeginGroup *)
(* (reverse, two-page special case, candidates) ; EvalCand one candidate   *)
(* per step - IN ANY ORDER when SortedCandidates = FALSE, which is what a  *)
(* Go map range does, in sorted order otherwise (repaired code) ; EndGroup *)
(* (compareAndUpdate) ; Finish (next and previous page).                   *)
(*                                                                         *)
(* CHECKED BY TLC (spec/gen/MC_PageNumber.tla):                            *)
(*   OrderIndependent   the answer equals the answer of the canonical      *)
(*                      order for every order of evaluation  (C11)         *)
(*   NeverPlaceHolder   neither answer is a javascript: place holder (C16) *)
(*   AnswerIsALink      each answer is the URL of a link item, never the   *)
(*                      page itself                                 (C16)  *)
(*   Conventional       for the conventional pager 1..N with plain k the   *)
(*                      answer is exactly (k+1, k-1)                 (C17)  *)
(***************************************************************************)
EXTENDS Integers, Sequences, FiniteSets, SequencesExt, TLC

CONSTANT SortedCandidates

\* ---- URLs ------------------------------------------------------------------
NoURL      == [k |-> "none", x |-> 0, y |-> 0]
Base       == [k |-> "base", x |-> 0, y |-> 0]
Js         == [k |-> "js", x |-> 0, y |-> 0]
Empty      == [k |-> "empty", x |-> 0, y |-> 0]      \* an anchor with an empty href: an anchor, but its URL is ""
Grid(x, y) == [k |-> "grid", x |-> x, y |-> y]
One(y)     == [k |-> "one", x |-> 0, y |-> y]
File(y)    == [k |-> "file", x |-> 0, y |-> y]
Q(y)       == [k |-> "q", x |-> 0, y |-> y]
Q2(x, y)   == [k |-> "q2", x |-> x, y |-> y]
HasURL(p)  == p.u.k \notin {"none", "empty"}

Digits(n) == IF n < 10 THEN 1 ELSE IF n < 100 THEN 2 ELSE 3
\* only differences of lengths within one URL family matter
UrlLen(u) == CASE u.k = "base" -> 0
               [] u.k = "one"  -> 6 + Digits(u.y)
               [] u.k = "grid" -> 2 + Digits(u.x) + Digits(u.y)
               [] u.k = "file" -> 11 + Digits(u.y)
               [] u.k = "q"    -> 9 + Digits(u.y)
               [] u.k = "q2"   -> 12 + Digits(u.x) + Digits(u.y)
               [] OTHER        -> 20

\* ---- page patterns -----------------------------------------------------------
\* [ax |-> "v"]          /zqs/view/[*!]       [ax |-> "f"]          /zqs/view-[*!].html
\* [ax |-> "x", key y]   /zqs/[*!]/y          [ax |-> "y", key x]   /zqs/x/[*!]
\* [ax |-> "q"]          /zqs/view?pg=[*!]
\* [ax |-> "qa", key y]  ?pg=[*!]&x=y         [ax |-> "qb", key x]  ?pg=x&x=[*!]
Pat(ax, key) == [ax |-> ax, key |-> key]
\* <<pattern, value>> pairs a link URL contributes (PathComponentPagePatternsFromURL)
PatsOf(u) == CASE u.k = "grid" -> {<<Pat("x", u.y), u.x>>, <<Pat("y", u.x), u.y>>}
               [] u.k = "one"  -> {<<Pat("v", 0), u.y>>}
               [] u.k = "file" -> {<<Pat("f", 0), u.y>>}
               [] u.k = "q"    -> {<<Pat("q", 0), u.y>>}
               [] u.k = "q2"   -> {<<Pat("qa", u.y), u.x>>, <<Pat("qb", u.x), u.y>>}
               \* a path without any digit yields no pattern at all (base)
               [] OTHER        -> {}
\* order of the pattern strings (in a path digits sort before the place holder "[*!]")
KeyRank(k) == IF k < 10 THEN k * 100 ELSE (k \div 10) * 100 + (k % 10) + 1     \* "1" < "10" < "11" < "2"
\* (in a query the place holder is percent-encoded, and "%" sorts before the digits)
PatRank(p) == CASE p.ax \in {"y", "qa"} -> KeyRank(p.key) [] p.ax \in {"x", "qb"} -> 10000 + KeyRank(p.key) [] OTHER -> 0
\* query patterns are tried first; path patterns only when no link of the group has a numeric query value
IsQueryPat(p) == p.ax \in {"q", "qa", "qb"}

\* IsValidFor(docURL): the components other than the place holder agree
ValidFor(p, doc) ==
    CASE p.ax = "v" -> doc.k \in {"one", "base"}
      [] p.ax = "f" -> doc.k \in {"file", "base"}
      [] p.ax = "x" -> (doc.k = "grid" /\ doc.y = p.key) \/ doc.k = "base"
      [] p.ax = "y" -> (doc.k = "grid" /\ doc.x = p.key) \/ doc.k = "base"
      [] p.ax = "q" -> doc.k \in {"q", "base"}                   \* same scheme, host and path
      [] p.ax \in {"qa", "qb"} -> doc.k \in {"q2", "base"}
\* IsPagingURL(url): path patterns by prefix / suffix / number in between, query patterns by equal path, equal
\* other parameters and a numeric page parameter (if present)
PagingURL(p, u) ==
    CASE p.ax = "v" -> u.k \in {"one", "base"}
      [] p.ax = "f" -> u.k \in {"file", "base"}
      [] p.ax = "x" -> u.k = "grid" /\ u.y = p.key
      [] p.ax = "y" -> (u.k = "grid" /\ u.x = p.key) \/ u.k = "base"
      [] p.ax = "q" -> u.k \in {"q", "base"}
      [] p.ax = "qa" -> u.k = "q2" /\ u.y = p.key
      [] p.ax = "qb" -> u.k = "q2" /\ u.x = p.key

\* ---- FindOutlink: items -> monotonic groups ------------------------------------
G0 == [groups |-> <<>>, prev |-> 0]                 \* prev: number of the last page info, 0 = none
Grp(list, sign) == [list |-> list, sign |-> sign]

AddGroup(st) ==
    IF st.groups = <<>> \/ Len(Last(st.groups).list) > 0
    THEN [groups |-> Append(st.groups, Grp(<<>>, 0)), prev |-> 0] ELSE st

Sign(d) == IF d > 0 THEN 1 ELSE IF d < 0 THEN -1 ELSE 0
SetLast(gs, g) == [gs EXCEPT ![Len(gs)] = g]

\* prevInfo is kept as a page info in the code; its number decides, the record is re-used
AddPageInfo(st, pi, prevInfo) ==
    IF st.groups = <<>> THEN [st |-> st, prevInfo |-> prevInfo]
    ELSE LET g == Last(st.groups) IN
         IF g.list = <<>>
         THEN [st |-> [st EXCEPT !.groups = SetLast(@, Grp(<<pi>>, g.sign))], prevInfo |-> pi]
         ELSE LET ds == Sign(pi.n - prevInfo.n)
                  \* a change of direction opens a new group (with the previous entry unless the number repeats)
                  opened == ds # g.sign /\ g.sign # 0
                  g1 == IF opened THEN Grp(IF ds # 0 THEN <<prevInfo>> ELSE <<>>, 0)
                        ELSE IF ds = g.sign /\ ds = 0 THEN Grp(<<>>, g.sign) ELSE g
                  g2 == Grp(Append(g1.list, pi), ds)
                  gs == IF opened THEN Append(st.groups, g2) ELSE SetLast(st.groups, g2)
              IN  [st |-> [st EXCEPT !.groups = gs], prevInfo |-> pi]

IsNum(it)  == it.t = "num"
IsLink(it) == it.t = "num" /\ it.u # NoURL
PI(it)     == [n |-> it.n, u |-> IF it.u = Empty THEN NoURL ELSE it.u]      \* the page info of an empty href has URL ""

\* the walk over the anchors of the document: a link starts a group, takes one plain number
\* directly before it, and the forward search adds numbers until something else is met
RECURSIVE ScanFrom(_, _, _, _, _)
ScanFrom(items, i, st, prevInfo, fwd) ==
    IF i > Len(items) THEN st
    ELSE LET it == items[i] IN
         IF ~IsNum(it) THEN ScanFrom(items, i + 1, IF fwd THEN AddGroup(st) ELSE st, prevInfo, FALSE)
         ELSE IF fwd THEN LET r == AddPageInfo(st, PI(it), prevInfo) IN ScanFrom(items, i + 1, r.st, r.prevInfo, TRUE)
         ELSE IF IsLink(it)
              THEN LET s1 == AddGroup(st)
                       r1 == IF i > 1 /\ IsNum(items[i-1]) /\ ~IsLink(items[i-1])
                             THEN AddPageInfo(s1, PI(items[i-1]), prevInfo) ELSE [st |-> s1, prevInfo |-> prevInfo]
                       r2 == AddPageInfo(r1.st, PI(it), r1.prevInfo)
                   IN  ScanFrom(items, i + 1, r2.st, r2.prevInfo, TRUE)
              ELSE ScanFrom(items, i + 1, st, prevInfo, FALSE)
NoInfo == [n |-> 0, u |-> NoURL]
Groups(items) ==
    LET gs == ScanFrom(items, 1, G0, NoInfo, FALSE).groups
    IN  IF gs # <<>> /\ Last(gs).list = <<>> THEN Front(gs) ELSE gs        \* CleanUp

\* ---- newDetectionStateFromMonotonicNumbers: preparation -------------------------
Outlinks(list) == Cardinality({i \in 1..Len(list) : HasURL(list[i])})
\* the ascending list the candidates are evaluated on; <<>> = "return nil"
Ascending(g, doc) ==
    LET l0 == IF g.sign < 0 THEN Reverse(g.list) ELSE g.list
        two == Len(l0) = 2 /\ Outlinks(l0) = 1 /\ l0[1].n = 1 /\ l0[2].n = 2
        l1 == IF two THEN (IF ~HasURL(l0[1]) THEN <<[n |-> 1, u |-> doc], l0[2]>> ELSE <<l0[1], [n |-> 2, u |-> doc]>>) ELSE l0
    IN  IF Len(g.list) < 2 \/ Outlinks(l0) = 0 \/ Outlinks(l1) < 2 THEN <<>> ELSE l1
\* (calendar elimination needs 28 numbers in a row: outside every bound used here)

\* candidates: pattern -> links [n, v, pos] in list order; place holders have no pattern
AllPats(asc)    == UNION {{pv[1] : pv \in PatsOf(asc[i].u)} : i \in 1..Len(asc)}
Candidates(asc) == IF \E p \in AllPats(asc) : IsQueryPat(p) THEN {p \in AllPats(asc) : IsQueryPat(p)} ELSE AllPats(asc)
LinksOf(asc, p) ==
    LET idx == SelectSeq([i \in 1..Len(asc) |-> i], LAMBDA i : \E pv \in PatsOf(asc[i].u) : pv[1] = p)
    IN  [j \in 1..Len(idx) |-> [n |-> asc[idx[j]].n, pos |-> idx[j],
                                 v |-> (CHOOSE pv \in PatsOf(asc[idx[j]].u) : pv[1] = p)[2]]]
FirstPageURL(asc) ==
    LET S == {i \in 1..Len(asc) : asc[i].n = 1 /\ HasURL(asc[i])}       \* place holders included
    IN  IF S = {} THEN NoURL ELSE asc[CHOOSE i \in S : \A j \in S : j <= i].u     \* the last one assigned wins

\* ---- PageNumbersState ----------------------------------------------------------------
RECURSIVE Adj(_, _, _, _, _)
Adj(links, j, last, gap, vals) ==
    IF j > Len(links) THEN [ok |-> TRUE, gap |-> gap]
    ELSE LET cur == links[j].pos
             jump == last # 0 /\ cur # last + 1
         IN  IF jump /\ (cur <= last \/ cur # last + 2 \/ gap # 0) THEN [ok |-> FALSE, gap |-> 0]
             ELSE IF links[j].v \in vals THEN [ok |-> FALSE, gap |-> 0]
             ELSE Adj(links, j + 1, cur, IF jump THEN cur - 1 ELSE gap, vals \cup {links[j].v})

NoState == [adj |-> FALSE, cons |-> FALSE, next |-> NoURL]
PNS(links, asc) ==
    LET a == Adj(links, 1, 0, 0, {})
        L == Len(asc)
        first == links[1].pos
        last  == links[Len(links)].pos
    IN  IF ~a.ok THEN NoState
        ELSE IF a.gap # 0
        THEN IF a.gap <= 1 \/ a.gap >= L THEN [NoState EXCEPT !.adj = TRUE]
             ELSE IF asc[a.gap - 1].n = asc[a.gap].n - 1 /\ asc[a.gap + 1].n = asc[a.gap].n + 1
                  THEN [adj |-> TRUE, cons |-> TRUE, next |-> asc[a.gap + 1].u]
                  ELSE [NoState EXCEPT !.adj = TRUE]
        ELSE LET case1 == first \in {1, 2} /\ asc[1].n = 1 /\ asc[2].n = 2
                 case2 == first = 3 /\ asc[3].n = 3 /\ ~HasURL(asc[2]) /\ HasURL(asc[1])
                 case3 == last \in {L, L - 1} /\ asc[L - 1].n + 1 = asc[L].n
                 case4 == \E i \in (first + 1)..(last - 1) : asc[i - 1].n + 2 = asc[i + 1].n
             IN  [adj |-> TRUE, cons |-> case1 \/ case2 \/ case3 \/ case4, next |-> NoURL]

\* isPageNumberSequence: returns the verdict and the (possibly filled in) next URL
Plain(asc) == {i \in 1..Len(asc) : ~HasURL(asc[i])}
RunStarts(asc) == {1} \cup {i \in 2..Len(asc) : asc[i].n # asc[i - 1].n + 1}
SeqCheck(state, asc) ==
    LET L == Len(asc)
        afterPlain == {i \in 1..L : HasURL(asc[i]) /\ \E q \in Plain(asc) : q < i}
        next2 == IF state.next = NoURL /\ Cardinality(Plain(asc)) = 1 /\ afterPlain # {}
                 THEN asc[CHOOSE i \in afterPlain : \A j \in afterPlain : i <= j].u ELSE state.next
        ok == /\ L > 1
              /\ ~(asc[1].n # 1 /\ ~HasURL(asc[1]))
              /\ Cardinality(Plain(asc)) <= 1
              /\ IF L = 2 THEN asc[1].n + 1 = asc[2].n
                 ELSE /\ Cardinality(RunStarts(asc)) <= 2
                      /\ \E s \in RunStarts(asc) : s + 1 \notin RunStarts(asc) /\ s + 1 <= L   \* longest run > 1
    IN  [ok |-> ok, next |-> next2]

\* ---- LinearFormula and Evaluate -----------------------------------------------------------
GoDiv(a, b) == IF a >= 0 THEN a \div b ELSE -((-a) \div b)       \* Go truncates toward zero (b > 0 here)
NoFormula == [ok |-> FALSE, c |-> 0, d |-> 0]
Formula(links) ==
    IF Len(links) < 2 THEN NoFormula
    ELSE LET f == links[1]
             s == links[2]
             dx == s.n - f.n
             c == GoDiv(s.v - f.v, dx)
             d == f.v - c * f.n
         IN  IF Len(links) = 2 /\ (IF f.n > s.n THEN f.n ELSE s.n) > 4 THEN NoFormula
             ELSE IF dx = 0 THEN NoFormula
             ELSE IF c = 0 THEN NoFormula
             ELSE IF d # 0 /\ d # -c THEN NoFormula
             ELSE IF \E i \in 3..Len(links) : links[i].v # c * links[i].n + d THEN NoFormula
             ELSE [ok |-> TRUE, c |-> c, d |-> d]

None == [some |-> FALSE]
Param(p, pages, f, next) == [some |-> TRUE, pat |-> p, pages |-> pages, formula |-> f, next |-> next]

Evaluate(p, links, asc, firstURL) ==
    IF Len(links) >= 2
    THEN LET st == PNS(links, asc) IN
         IF ~st.adj \/ ~st.cons THEN None
         ELSE LET sq == SeqCheck(st, asc) IN
              IF ~sq.ok THEN None
              ELSE Param(p, [j \in 1..Len(links) |-> [n |-> links[j].n, u |-> asc[links[j].pos].u]], Formula(links), sq.next)
    ELSE IF Len(links) = 1 /\ firstURL # NoURL
    THEN LET o == links[1]
             second == o.n = 2 /\ o.pos = 2
             third  == o.n = 3 /\ o.pos = 3 /\ asc[2].n = 2
         IN  IF asc[1].n = 1 /\ (second \/ third) /\ PagingURL(p, firstURL)
             THEN LET d0 == o.v - o.n
                      f  == IF d0 = 0 \/ d0 = 1 THEN [ok |-> TRUE, c |-> 1, d |-> d0] ELSE [ok |-> TRUE, c |-> o.v, d |-> 0]
                      pages == <<[n |-> 1, u |-> firstURL], [n |-> o.n, u |-> asc[o.pos].u]>>
                  IN  Param(p, pages, f, IF third THEN asc[o.pos].u ELSE NoURL)
             ELSE None
    ELSE None

\* first-page insertion (CanInsertFirstPage / the IsPagingURL heuristic)
CanInsertFirst(pr, doc, asc) ==
    /\ Len(pr.pages) >= 2
    /\ pr.pages[1].n # 1
    /\ UrlLen(doc) < UrlLen(pr.pages[1].u)
    /\ \A i \in 1..Len(pr.pages) : pr.pages[i].n = i + 1 /\ pr.pages[i].u # doc
    /\ ~\E i \in 1..Len(asc) : asc[i].n = 1 /\ HasURL(asc[i]) /\ asc[i].u # doc
WithFirst(pr, doc) == [pr EXCEPT !.pages = <<[n |-> 1, u |-> doc]>> \o @]
Inserted(pr, doc, asc) ==
    IF CanInsertFirst(pr, doc, asc) THEN WithFirst(pr, doc)
    ELSE IF PagingURL(pr.pat, doc) /\ pr.pages[1].n = 2 /\ pr.pages[1].u # doc /\ UrlLen(doc) < UrlLen(pr.pages[1].u)
    THEN WithFirst(pr, doc)
    ELSE pr

\* CompareTo: 1 this better, -1 other better, 0 undecided (the type is always PageNumber)
Compare(a, b) == IF a.formula.ok /\ ~b.formula.ok THEN 1 ELSE IF ~a.formula.ok /\ b.formula.ok THEN -1 ELSE 0
D0 == [best |-> None, multi |-> FALSE]
Update(ds, cand, candMulti) ==
    IF ~cand.some THEN ds
    ELSE IF ~ds.best.some THEN [best |-> cand, multi |-> candMulti]
    ELSE LET r == Compare(ds.best, cand) IN
         IF r = -1 THEN [best |-> cand, multi |-> candMulti]
         ELSE IF r = 0 THEN [ds EXCEPT !.multi = TRUE] ELSE ds

\* one candidate of a group: skipped when it is the accepted pattern of an earlier group or not valid
EvalOne(p, asc, doc, accepted) ==
    IF (accepted.some /\ accepted.pat = p) \/ ~ValidFor(p, doc) THEN None
    ELSE LET e == Evaluate(p, LinksOf(asc, p), asc, FirstPageURL(asc))
         IN  IF e.some THEN Inserted(e, doc, asc) ELSE None

\* ---- the answer (DetermineNextPagingURL, FindPagination) ------------------------------------
NextOf(pr, doc) ==
    IF pr.next # NoURL \/ pr.pages = <<>> THEN pr.next
    ELSE LET S == {i \in 1..Len(pr.pages) : pr.pages[i].u = doc /\ i < Len(pr.pages)}
         IN  IF S = {} THEN NoURL ELSE pr.pages[(CHOOSE i \in S : \A j \in S : i <= j) + 1].u
Shown(u) == IF u.k = "js" THEN NoURL ELSE u          \* place holders are never handed out (2094ac5)
Answer(ds, doc) ==
    IF ~ds.best.some THEN [next |-> NoURL, prev |-> NoURL]
    ELSE LET pr == ds.best
             nx == NextOf(pr, doc)
             L  == Len(pr.pages)
         IN  IF nx = NoURL
             THEN LET S == {i \in 1..L : pr.pages[i].u # doc}
                  IN  [next |-> NoURL, prev |-> Shown(IF S = {} THEN NoURL ELSE pr.pages[CHOOSE i \in S : \A j \in S : j <= i].u)]
             ELSE LET N == {i \in 1..L : pr.pages[i].u = nx}
                      ni == IF N = {} THEN 0 ELSE CHOOSE i \in N : \A j \in N : i <= j
                      S == {i \in 1..(ni - 1) : pr.pages[i].u # doc}
                  IN  [next |-> Shown(nx), prev |-> Shown(IF S = {} THEN NoURL ELSE pr.pages[CHOOSE i \in S : \A j \in S : j <= i].u)]

\* ---- the whole finder as a function, candidates in canonical (sorted) order ------------------
SortedPats(S) == SortSeq(SetToSeq(S), LAMBDA a, b : PatRank(a) < PatRank(b))
RECURSIVE FoldCands(_, _, _, _, _)
FoldCands(ps, gs, asc, doc, accepted) ==
    IF ps = <<>> THEN gs ELSE FoldCands(Tail(ps), Update(gs, EvalOne(Head(ps), asc, doc, accepted), FALSE), asc, doc, accepted)
RECURSIVE FoldGroups(_, _, _, _)
FoldGroups(groups, gi, ds, doc) ==
    IF gi > Len(groups) THEN ds
    ELSE LET asc == Ascending(groups[gi], doc)
             gs  == IF asc = <<>> THEN D0 ELSE FoldCands(SortedPats(Candidates(asc)), D0, asc, doc, ds.best)
         IN  FoldGroups(groups, gi + 1, IF gs.best.some THEN Update(ds, gs.best, gs.multi) ELSE ds, doc)
Canonical(items, doc) == Answer(FoldGroups(Groups(items), 1, D0, doc), doc)

\* ---- the machine ------------------------------------------------------------------------------
VARIABLES items, doc, pc, groups, gi, asc, todo, gstate, dstate, answer
vars == <<items, doc, pc, groups, gi, asc, todo, gstate, dstate, answer>>

NoAnswer == [next |-> NoURL, prev |-> NoURL]

Scan == /\ pc = "scan"
        /\ groups' = Groups(items) /\ gi' = 1 /\ pc' = "group"
        /\ UNCHANGED <<items, doc, asc, todo, gstate, dstate, answer>>

BeginGroup == /\ pc = "group" /\ gi <= Len(groups)
              /\ LET a == Ascending(groups[gi], doc) IN
                   IF a = <<>> THEN /\ gi' = gi + 1 /\ UNCHANGED <<pc, asc, todo, gstate>>
                   ELSE /\ asc' = a /\ todo' = Candidates(a) /\ gstate' = D0 /\ pc' = "cands" /\ UNCHANGED gi
              /\ UNCHANGED <<items, doc, groups, dstate, answer>>

EvalCand(p) == /\ pc = "cands" /\ p \in todo
               /\ SortedCandidates => \A q \in todo : PatRank(p) <= PatRank(q)
               /\ gstate' = Update(gstate, EvalOne(p, asc, doc, dstate.best), FALSE)
               /\ todo' = todo \ {p}
               /\ UNCHANGED <<items, doc, pc, groups, gi, asc, dstate, answer>>

EndGroup == /\ pc = "cands" /\ todo = {}
            /\ dstate' = IF gstate.best.some THEN Update(dstate, gstate.best, gstate.multi) ELSE dstate
            /\ gi' = gi + 1 /\ pc' = "group"
            /\ UNCHANGED <<items, doc, groups, asc, todo, gstate, answer>>

Finish == /\ pc = "group" /\ gi > Len(groups)
          /\ answer' = Answer(dstate, doc) /\ pc' = "done"
          /\ UNCHANGED <<items, doc, groups, gi, asc, todo, gstate, dstate>>

Next == Scan \/ BeginGroup \/ (\E p \in todo : EvalCand(p)) \/ EndGroup \/ Finish

\* ---- properties --------------------------------------------------------------------------------
LinkURLs(its) == {its[i].u : i \in {j \in 1..Len(its) : IsLink(its[j]) /\ its[j].u # Empty}}
OrderIndependent == pc = "done" => answer = Canonical(items, doc)
NeverPlaceHolder == pc = "done" => answer.next.k # "js" /\ answer.prev.k # "js"
AnswerIsALink    == pc = "done" => /\ answer.next \in LinkURLs(items) \cup {NoURL}
                                    /\ answer.prev \in LinkURLs(items) \cup {NoURL}
Terminates == <>(pc = "done")
=============================================================================
