------------------------------- MODULE Embed -------------------------------
(***************************************************************************)
(* Third-party frames (property C19): which iframe / object / tweet        *)
(* blockquote becomes an embed placeholder, and with which type and id.    *)
(*                                                                         *)
(*  - A SOURCE is what a page author writes: the carrier element (tag,     *)
(*    twitter-tweet class, data-tweet-id) and its source URL, given in     *)
(*    PARSED form (RFC 3986 components): scheme, authority present or not, *)
(*    userinfo labels, host labels, path segments, query / fragment        *)
(*    present or not.  Splitting a URL string into these components is     *)
(*    lexical and is done outside the model (harness/fam_embed.go          *)
(*    splitURL); nothing in this module ever looks at an unparsed string,  *)
(*    so a root name inside userinfo, path, query or fragment cannot       *)
(*    influence Allowed.                                                   *)
(*  - Build(p) is the abstract source the concretiser generates for the    *)
(*    case parameters p (ids are the tokens "ID" / "TID", the root name    *)
(*    used as a path segment is the token "ROOT").                         *)
(*  - Expected(s, ph) is the placeholder the property text demands for     *)
(*    source s on a page whose URL has host ph (<<>> = no page URL):       *)
(*    [type, id] or None.                                                  *)
(*  - The machine tries the extractors in the order the converter          *)
(*    registers them (image, twitter, vimeo, youtube; the first one that   *)
(*    recognises the element wins; nobody => the element falls through to  *)
(*    the skip list and is dropped), each written as the extractor does    *)
(*    it (tag table, which attribute carries the URL, resolve against the  *)
(*    page URL or not, root-domain test, id rule).                         *)
(*                                                                         *)
(* TLC checks  machine result = Expected  for every case of the product    *)
(* and dumps each case; the driver builds the real page, runs Apply, and   *)
(* spec/trace/EmbedTrace.tla evaluates the C19 predicates on what the real *)
(* code produced, with Expected computed from the source as MEASURED on    *)
(* the parsed tree.                                                        *)
(***************************************************************************)
EXTENDS Integers, Sequences, FiniteSets, TLC, Json

CONSTANTS Carriers, Schemes, Users, HostShapes, Roots, Paths, Queries, Frags,  \* value sets to enumerate
          AllPathsOffList,   \* TRUE: hosts that are not allow-listed get every path shape too
          Dump

AllCarriers   == {"iframe", "iframeTid", "objData", "objParam", "bq", "bqNoClass", "bqNoAnchor", "bqBare"}
AllSchemes    == {"http", "https", "schemeRel", "relPath", "absPath"}
AllUsers      == {"none", "plain", "hostlike"}
AllHostShapes == {"root", "www", "deep", "parent", "suffixEvil", "prefixEvil", "prefix1", "dashEvil", "other"}
AllRoots      == {"youtube", "nocookie", "vimeo", "twitter"}
AllQueries    == {"none", "plain", "hostlike"}
AllFrags      == {"none", "plain", "hostlike"}
ASSUME /\ Carriers \subseteq AllCarriers /\ Schemes \subseteq AllSchemes /\ Users \subseteq AllUsers
       /\ HostShapes \subseteq AllHostShapes /\ Roots \subseteq AllRoots
       /\ Queries \subseteq AllQueries /\ Frags \subseteq AllFrags

None == [type |-> "none", id |-> "none"]
Max(S) == CHOOSE x \in S : \A y \in S : x >= y

\* ---- the allow-list ---------------------------------------------------------
RootLabels(r) == CASE r = "youtube"  -> <<"youtube", "com">>
                   [] r = "nocookie" -> <<"youtube-nocookie", "com">>
                   [] r = "vimeo"    -> <<"player", "vimeo", "com">>
                   [] r = "twitter"  -> <<"twitter", "com">>
ServiceName(r) == IF r \in {"youtube", "nocookie"} THEN "youtube" ELSE r

\* host h (a sequence of non-empty lower-case labels) equals root R or ends with "." + R
Under(h, R) == /\ Len(h) >= Len(R)
               /\ SubSeq(h, Len(h) - Len(R) + 1, Len(h)) = R
ServiceOf(h) == IF \E r \in AllRoots : Under(h, RootLabels(r))
                THEN ServiceName(CHOOSE r \in AllRoots : Under(h, RootLabels(r)))
                ELSE "none"
Allowed(h) == ServiceOf(h) # "none"

\* ---- URLs and sources --------------------------------------------------------
RECURSIVE JoinDots(_)
JoinDots(ls) == IF Len(ls) = 0 THEN "" ELSE IF Len(ls) = 1 THEN ls[1] ELSE ls[1] \o "." \o JoinDots(Tail(ls))

\* the look-alike shapes of the property text
HostLabels(shape, r) ==
    LET R == RootLabels(r) IN
    CASE shape = "root"       -> R                                               \* youtube.com
      [] shape = "www"        -> <<"www">> \o R                                  \* www.youtube.com
      [] shape = "deep"       -> <<"a", "b">> \o R                               \* a.b.youtube.com
      [] shape = "parent"     -> Tail(R)                                         \* vimeo.com (for player.vimeo.com)
      [] shape = "suffixEvil" -> R \o <<"evil", "example">>                      \* youtube.com.evil.example
      [] shape = "prefixEvil" -> <<"evil" \o R[1]>> \o Tail(R)                   \* evilyoutube.com
      [] shape = "prefix1"    -> <<"x" \o R[1]>> \o Tail(R)                      \* xyoutube.com: one character in front
      [] shape = "dashEvil"   -> SubSeq(R, 1, Len(R) - 1) \o <<R[Len(R)] \o "-evil", "example">>  \* youtube.com-evil.example
      [] shape = "other"      -> <<"evil", "example">>                           \* the name only elsewhere in the URL

HasAuthority(scheme) == scheme \in {"http", "https", "schemeRel"}

UserLabels(p) == CASE p.user = "none"     -> <<>>
                   [] p.user = "plain"    -> <<"zquser">>
                   [] p.user = "hostlike" -> RootLabels(p.root)                  \* youtube.com@evil.example

EmptyUrl == [scheme |-> "", auth |-> FALSE, lead |-> FALSE, user |-> <<>>, host |-> <<>>, path |-> <<>>,
             query |-> FALSE, frag |-> FALSE]

\* a URL without authority is a path: the would-be host is just its first segment
Url(p) == LET a == HasAuthority(p.scheme)
              H == HostLabels(p.host, p.root)
          IN [scheme |-> IF p.scheme \in {"http", "https"} THEN p.scheme ELSE "",
              auth   |-> a,
              lead   |-> IF a THEN p.path # <<>> ELSE p.scheme = "absPath",
              user   |-> IF a THEN UserLabels(p) ELSE <<>>,
              host   |-> IF a THEN H ELSE <<>>,
              path   |-> IF a THEN p.path ELSE <<JoinDots(H)>> \o p.path,
              query  |-> p.query # "none",
              frag   |-> p.frag # "none"]

TagOf(c) == CASE c \in {"iframe", "iframeTid"} -> "iframe"
              [] c \in {"objData", "objParam"} -> "object"
              [] OTHER -> "blockquote"
HasAnchor(c) == c \notin {"bqNoAnchor", "bqBare"}

\* via: where the source URL of the carrier is written
Build(p) == [tag |-> TagOf(p.carrier),
             cls |-> p.carrier \in {"bq", "bqNoAnchor"},
             tid |-> IF p.carrier = "iframeTid" THEN "TID" ELSE "",
             via |-> CASE p.carrier \in {"iframe", "iframeTid"} -> "src"
                       [] p.carrier = "objData"  -> "data"
                       [] p.carrier = "objParam" -> "param"
                       [] p.carrier \in {"bq", "bqNoClass"} -> "anchor"     \* href of the LAST anchor inside
                       [] OTHER                  -> "none",
             url |-> IF HasAnchor(p.carrier) THEN Url(p) ELSE EmptyUrl]

\* the host a browser would contact: the URL's own, else the page's
ResolvedHost(u, ph) == IF u.auth THEN u.host ELSE ph

LastNonEmpty(path) == LET idx == {k \in 1..Len(path) : path[k] # ""}
                      IN  IF idx = {} THEN "" ELSE path[Max(idx)]

ReservedWords == {"embed", "video", "v"}
Reserved(svc) == CASE svc = "youtube" -> "embed" [] svc = "vimeo" -> "video" [] OTHER -> ""

(***************************************************************************)
(* The placeholder the property demands.                                   *)
(***************************************************************************)
PathId(path, svc) == LET s == LastNonEmpty(path)
                     IN  IF s = "" \/ s = Reserved(svc) THEN "none" ELSE s     \* /embed/ alone: no id
WithId(svc, id) == IF id \in {"none", ""} THEN None ELSE [type |-> svc, id |-> id]

Expected(s, ph) ==
    LET svc == IF s.via = "none" THEN "none" ELSE ServiceOf(ResolvedHost(s.url, ph)) IN
    CASE s.tag = "iframe" ->
            IF svc = "twitter" THEN WithId("twitter", s.tid)                     \* tweet id from data-tweet-id
            ELSE IF svc \in {"youtube", "vimeo"} THEN WithId(svc, PathId(s.url.path, svc))
            ELSE None
      [] s.tag = "object" ->
            IF svc = "youtube" THEN WithId("youtube", PathId(s.url.path, "youtube")) ELSE None
      [] s.tag = "blockquote" ->
            IF s.cls /\ svc = "twitter" THEN WithId("twitter", LastNonEmpty(s.url.path)) ELSE None

(***************************************************************************)
(* Zones where the statement is silent or ambiguous (never generated, and  *)
(* never judged by the trace specification):                               *)
(*  - the last non-empty path segment is a reserved word other than the    *)
(*    service's own (/video/ or /v/ on YouTube, /embed/ or /v/ on Vimeo,   *)
(*    any of them as a "tweet id");                                        *)
(*  - an object whose source is on Vimeo or Twitter (the statement only    *)
(*    says "only if"; objects are a YouTube embedding form).               *)
(***************************************************************************)
Silent(s, ph) ==
    LET svc == IF s.via = "none" THEN "none" ELSE ServiceOf(ResolvedHost(s.url, ph))
        last == LastNonEmpty(s.url.path)
    IN  \/ svc \in {"youtube", "vimeo"} /\ last \in ReservedWords \ {Reserved(svc)}
        \/ svc = "twitter" /\ s.tag = "blockquote" /\ last \in ReservedWords
        \/ s.tag = "object" /\ svc \in {"vimeo", "twitter"}

\* ---- the extractors as the converter runs them -------------------------------
Extractors == <<"image", "twitter", "vimeo", "youtube">>

HasRootDomain(h, r) == LET R == RootLabels(r) IN h = R \/ (Len(h) > Len(R) /\ Under(h, R))
UnresolvedHost(u) == IF u.auth THEN u.host ELSE <<>>

IdExcept(path, word) == LET s == LastNonEmpty(path) IN IF s = word THEN "" ELSE s

Recognise(ext, s, ph) ==
    CASE ext = "image" ->
            None                                                     \* img / picture / figure / span only
      [] ext = "twitter" ->
            IF s.tag = "blockquote" THEN
                 IF ~s.cls \/ s.via # "anchor" THEN None
                 ELSE IF ~HasRootDomain(ResolvedHost(s.url, ph), "twitter") THEN None
                 ELSE WithId("twitter", LastNonEmpty(s.url.path))
            ELSE IF s.tag = "iframe" THEN
                 IF ~HasRootDomain(UnresolvedHost(s.url), "twitter") THEN None   \* src is not resolved here
                 ELSE WithId("twitter", s.tid)
            ELSE None
      [] ext = "vimeo" ->
            IF s.tag # "iframe" THEN None
            ELSE IF ~HasRootDomain(ResolvedHost(s.url, ph), "vimeo") THEN None
            ELSE WithId("vimeo", IdExcept(s.url.path, "video"))
      [] ext = "youtube" ->
            IF s.tag \notin {"iframe", "object"} THEN None
            ELSE IF ~(HasRootDomain(ResolvedHost(s.url, ph), "youtube") \/ HasRootDomain(ResolvedHost(s.url, ph), "nocookie")) THEN None
            ELSE WithId("youtube", IdExcept(s.url.path, "embed"))

RECURSIVE FirstExt(_, _, _)
FirstExt(s, ph, k) == IF k > Len(Extractors) THEN k
                      ELSE IF Recognise(Extractors[k], s, ph) # None THEN k ELSE FirstExt(s, ph, k + 1)
MachineResult(s, ph) == LET k == FirstExt(s, ph, 1)
                        IN  IF k > Len(Extractors) THEN None ELSE Recognise(Extractors[k], s, ph)

\* ---- the enumerated product ---------------------------------------------------
Params == [carrier : Carriers, root : Roots, host : HostShapes, scheme : Schemes, user : Users,
           path : Paths, query : Queries, frag : Frags]

PageHosts == {<<>>, <<"news", "example", "org">>}     \* no page URL / a neutral page URL

HasTok(path, t) == \E k \in 1..Len(path) : path[k] = t
\* the short list of paths tried on hosts that are not allow-listed
SmallPaths == {<<>>, <<"embed", "ID">>, <<"ROOT", "embed", "ID">>, <<"u", "status", "ID">>}

\* the part of the scope that does not depend on path / query / fragment
PreScope(q) ==
    /\ q.host = "parent" => q.root = "vimeo"
    /\ ~HasAuthority(q.scheme) => q.user = "none"
    /\ q.user = "hostlike" => q.host \in {"other", "root"}
    /\ TagOf(q.carrier) = "blockquote" => q.root = "twitter"
    /\ ~HasAnchor(q.carrier) => q.scheme = "https" /\ q.user = "none" /\ q.host = "root"

InScope(q) ==
    LET s == Build(q)
        svc == ServiceOf(UnresolvedHost(s.url))
    IN  /\ PreScope(q)
        /\ HasTok(q.path, "ROOT") => q.host = "other" /\ HasAuthority(q.scheme)
        /\ ~HasAnchor(q.carrier) => q.path = <<"u", "status", "ID">> /\ q.query = "none" /\ q.frag = "none"
        /\ \A ph \in PageHosts : ~Silent(s, ph)
        /\ (svc = "none" /\ ~AllPathsOffList /\ HasAnchor(q.carrier)) => q.path \in SmallPaths
        /\ (svc = "twitter" /\ s.tag = "iframe") => q.path \in SmallPaths     \* the path plays no role there

\* ---- the step machine ---------------------------------------------------------
VARIABLES p, pg, i, result
vars == <<p, pg, i, result>>

Path0 == CHOOSE x \in Paths : TRUE
\* the case is chosen in two steps only so that TLC's workers share the enumeration; i = 0: not chosen yet
Init == /\ p \in [carrier : Carriers, root : Roots, host : HostShapes, scheme : Schemes, user : Users,
                  path : {Path0}, query : {"none"}, frag : {"none"}]
        /\ PreScope(p)
        /\ pg \in PageHosts
        /\ i = 0 /\ result = None

Pick == /\ i = 0
        /\ \E pa \in Paths, qu \in Queries, fr \in Frags :
              /\ p' = [p EXCEPT !.path = pa, !.query = qu, !.frag = fr]
              /\ InScope(p')
        /\ i' = 1
        /\ UNCHANGED <<pg, result>>

Finished == i >= 1 /\ (result # None \/ i > Len(Extractors))

\* one extractor per step
Step == /\ i >= 1 /\ ~Finished
        /\ LET r == Recognise(Extractors[i], Build(p), pg)
           IN  IF r # None THEN result' = r /\ i' = i
               ELSE i' = i + 1 /\ result' = result
        /\ UNCHANGED <<p, pg>>

\* the whole dispatch in one step (used for the dumped product)
Decide == /\ i = 1 /\ ~Finished
          /\ i' = FirstExt(Build(p), pg, 1)
          /\ result' = MachineResult(Build(p), pg)
          /\ UNCHANGED <<p, pg>>

Next == Pick \/ Step
NextDecide == Pick \/ Decide
Spec == Init /\ [][Next]_vars /\ WF_vars(Next)

TypeOK == /\ i \in 0..(Len(Extractors) + 1)
          /\ result.type \in {"none", "youtube", "vimeo", "twitter"}

\* C19 at design level: extractor order, tag tables, root-domain test and id rules give what the property says
AgreesWithExpected == Finished => result = Expected(Build(p), pg)
\* ... and only for allow-listed parsed hosts
OnlyAllowed == (Finished /\ result # None) =>
                   /\ Allowed(ResolvedHost(Build(p).url, pg))
                   /\ result.type = ServiceOf(ResolvedHost(Build(p).url, pg))
StepEqualsDecide == Finished => result = MachineResult(Build(p), pg)
Terminates == <>Finished

DumpCase == (Dump /\ Finished /\ pg = <<>>) =>
               PrintT(<<"@@CASE", ToJson([p |-> [carrier |-> p.carrier, root |-> p.root, host |-> p.host, scheme |-> p.scheme,
                                                 user |-> p.user, path |-> p.path, query |-> p.query, frag |-> p.frag,
                                                 hostL |-> HostLabels(p.host, p.root), userL |-> UserLabels(p),
                                                 rootName |-> JoinDots(RootLabels(p.root))],
                                          x |-> result.type])>>)
=============================================================================
