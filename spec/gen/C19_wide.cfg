\* the whole product with every path shape on every host (thorough tier), dispatch in one step, every case dumped
CONSTANTS
 Carriers <- AllCarriers
 Schemes <- AllSchemes
 Users <- AllUsers
 HostShapes <- AllHostShapes
 Roots <- AllRoots
 Paths <- MCPaths
 Queries <- AllQueries
 Frags <- AllFrags
 AllPathsOffList = TRUE
 Dump = TRUE
INIT Init
NEXT NextDecide
INVARIANTS AgreesWithExpected OnlyAllowed
CONSTRAINT DumpCase
CHECK_DEADLOCK FALSE
