\* thorough: all twelve token kinds, sequences up to 4, every h1/h2, all four markup kinds; composite step, every case dumped
CONSTANTS
 TokKinds <- AllToks
 MaxLen = 4
 H1s <- AllH1s
 H2s <- AllH2s
 Markups <- AllMarkups
 Dump = TRUE
INIT Init
NEXT NextRun
INVARIANTS InvMarkupWins InvNoInvention InvExactWhenPlain InvNonEmpty
CONSTRAINT DumpCase
CHECK_DEADLOCK FALSE
