\* list items holding blocks, bare text and inline elements side by side (one text block, a clone with block children)
CONSTANTS
 Alphabet <- LiAlphabet
 RootKinds <- LiRoots
 MaxRoots = 1
 MaxNodes = 6
 MaxDepth = 4
 MinDump = 4
 Dump = TRUE
INIT Init
NEXT Next
INVARIANT TypeOK
CONSTRAINT DumpCase
CHECK_DEADLOCK FALSE
