\* full base x class x carrier product; srcset candidates: 1..3, classes of the further candidates by rotation
CONSTANTS
 BaseIds <- AllBaseIds
 RefClasses <- AllRefClasses
 Carriers <- AllCarriers
 MaxCand = 3
 FullTuples = FALSE
 Handed <- AllKinds
 Dump = TRUE
INIT Init
NEXT Next
INVARIANTS TypeOK BaseWellFormed ResolveAbsolute ResolveIdentityOnAbsolute ResolveIdempotent NoClimbAboveRoot KeepBasePath DotsAgreeWithRFC ClassesAsStated OutputAbsolute
CONSTRAINT DumpCase
CHECK_DEADLOCK FALSE
