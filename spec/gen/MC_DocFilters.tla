---- MODULE MC_DocFilters ----
(* every element list of the bound: all balanced tag nestings x leaves x flags, as the converter and the
   text classification can leave them (only text elements may be content before the filters run) *)
EXTENDS DocFilters

CONSTANTS MaxLen, MaxDepth

VARIABLES es, depth
vars == <<es, depth>>

Leaf(k, c)  == [k |-> k, c |-> c, name |-> "", start |-> FALSE]
TagE(st, c) == [k |-> "tag", c |-> c, name |-> "ul", start |-> st]

Init == es = <<>> /\ depth = 0

AddLeaf == /\ Len(es) < MaxLen
           /\ \E k \in {"text", "image", "table"}, c \in BOOLEAN :
                 /\ (k # "text" => ~c)
                 /\ es' = Append(es, Leaf(k, c))
           /\ UNCHANGED depth
Open  == Len(es) < MaxLen /\ depth < MaxDepth /\ es' = Append(es, TagE(TRUE, FALSE)) /\ depth' = depth + 1
Close == Len(es) < MaxLen /\ depth > 0 /\ es' = Append(es, TagE(FALSE, FALSE)) /\ depth' = depth - 1

Next == AddLeaf \/ Open \/ Close
Spec == Init /\ [][Next]_vars

\* the pipeline: Relevant, then LeadImage (any allowed promotion), then Nested
AfterRel == Relevant(es)
Leads(l) == {l} \cup {SetC(l, i, TRUE) : i \in LeadCandidates(l)}

Inv_C08_MediaFollowsText == MediaFollowsText(es, AfterRel)
Inv_C08_RelevantKeepsTexts == \A i \in 1..Len(es) : IsText(es[i]) => AfterRel[i] = es[i]
Inv_C07_PairContentIffEnclosesContent ==
    (depth = 0) => \A l \in Leads(AfterRel) : PairContentIffEnclosesContent(l, Nested(l)) /\ NonTagsUntouched(l, Nested(l))
Inv_LeadAllowed == \A l \in Leads(AfterRel) : LeadImageMay(AfterRel, l)
====
