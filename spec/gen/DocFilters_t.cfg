CONSTANTS
 MaxLen = 9
 MaxDepth = 3
INIT Init
NEXT Next
INVARIANTS Inv_C08_MediaFollowsText Inv_C08_RelevantKeepsTexts Inv_C07_PairContentIffEnclosesContent Inv_LeadAllowed
CHECK_DEADLOCK FALSE
