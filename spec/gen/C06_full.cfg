\* the full product: every tuple of classes for 1..3 srcset candidates
CONSTANTS
 BaseIds <- AllBaseIds
 RefClasses <- AllRefClasses
 Carriers <- AllCarriers
 MaxCand = 3
 FullTuples = TRUE
 Handed <- AllKinds
 Dump = TRUE
INIT Init
NEXT Next
INVARIANTS TypeOK BaseWellFormed ResolveAbsolute ResolveIdentityOnAbsolute ResolveIdempotent NoClimbAboveRoot KeepBasePath DotsAgreeWithRFC ClassesAsStated OutputAbsolute
CONSTRAINT DumpCase
CHECK_DEADLOCK FALSE
