\* every initial block list over <= 4 Text elements x every sequence of filter steps
CONSTANTS
 MaxTexts = 4
INIT MCInit
NEXT Next
INVARIANTS NeverSplit OneFlagPerInitialBlock
CHECK_DEADLOCK FALSE
