\* length thresholds: 2/6/40-letter words (and a colon word) up to 5 tokens, on both sides of 15 and 150 characters, every h1
CONSTANTS
 TokKinds <- KLength
 MaxLen = 5
 H1s <- AllH1s
 H2s <- H2Long
 Markups <- MNoneIe
 Dump = TRUE
INIT Init
NEXT NextRun
INVARIANTS InvMarkupWins InvNoInvention InvExactWhenPlain InvNonEmpty
CONSTRAINT DumpCase
CHECK_DEADLOCK FALSE
