\* the whole product, dispatch in one step, every case dumped
CONSTANTS
 Carriers <- AllCarriers
 Schemes <- AllSchemes
 Users <- AllUsers
 HostShapes <- AllHostShapes
 Roots <- AllRoots
 Paths <- MCPaths
 Queries <- AllQueries
 Frags <- AllFrags
 AllPathsOffList = FALSE
 Dump = TRUE
INIT Init
NEXT NextDecide
INVARIANTS AgreesWithExpected OnlyAllowed
CONSTRAINT DumpCase
CHECK_DEADLOCK FALSE
