---- MODULE MC_PageNumber ----
(* generator / model-checking module for spec/PageNumber.tla *)
EXTENDS PageNumber, Json

CONSTANTS Mode,      \* link family: "grid" /zqs/x/y, "one" /zqs/view/y, "file" /zqs/view-y.html, "q" ?pg=y, "q2" ?pg=x&x=y ; "conv": conventional pagers 1..N of the families one, file, q
          MaxLen, Nums, Coords, MaxN, Dump

Brk == [t |-> "brk", n |-> 0, u |-> NoURL]
Num(n, u) == [t |-> "num", n |-> n, u |-> u]

FamURLs == CASE Mode = "grid" -> {Grid(x, y) : x \in Coords, y \in Coords}
             [] Mode = "q2"   -> {Q2(x, y) : x \in Coords, y \in Coords}
             [] Mode = "one"  -> {One(y) : y \in Nums}
             [] Mode = "file" -> {File(y) : y \in Nums}
             [] Mode = "q"    -> {Q(y) : y \in Nums}
             [] OTHER         -> {}
Alphabet == {Brk} \cup {Num(n, NoURL) : n \in Nums} \cup {Num(n, Js) : n \in Nums} \cup {Num(n, Empty) : n \in Nums}
            \cup {Num(n, u) : n \in Nums, u \in FamURLs}
Docs == FamURLs \cup {Base}

\* sequences worth running: at least two links, no leading/trailing/double separator
Worth(s) == /\ Cardinality({i \in DOMAIN s : IsLink(s[i])}) >= 2
            /\ s[1] # Brk /\ s[Len(s)] # Brk
            /\ \A i \in 1..(Len(s) - 1) : ~(s[i] = Brk /\ s[i + 1] = Brk)

\* the conventional pager of C17: pages 1..n as links of one pattern, page k as plain text
ConvFams == {"one", "file", "q"}
U(fam, i) == CASE fam = "one" -> One(i) [] fam = "file" -> File(i) [] fam = "q" -> Q(i)
Conv(fam, n, k) == [i \in 1..n |-> IF i = k THEN Num(i, NoURL) ELSE Num(i, U(fam, i))]

MCInit ==
    /\ pc = "scan" /\ groups = <<>> /\ gi = 0 /\ asc = <<>> /\ todo = {} /\ gstate = D0 /\ dstate = D0 /\ answer = NoAnswer
    /\ IF Mode = "conv"
       THEN \E fam \in ConvFams : \E n \in 2..MaxN : \E k \in 1..n : items = Conv(fam, n, k) /\ doc = U(fam, k)
       ELSE /\ items \in {s \in UNION {[1..m -> Alphabet] : m \in 2..MaxLen} : Worth(s)}
            /\ doc \in Docs

Spec == MCInit /\ [][Next]_vars /\ WF_vars(Next)

TypeOK == pc \in {"scan", "group", "cands", "done"}

\* C17 at design level: the conventional pager is resolved exactly
Conventional ==
    (Mode = "conv" /\ pc = "done") =>
        LET n == Len(items)
            k == doc.y
            u(i) == [doc EXCEPT !.y = i]
        IN  /\ answer.next = IF k < n THEN u(k + 1) ELSE NoURL
            /\ answer.prev = IF k > 1 THEN u(k - 1) ELSE NoURL

DumpCase == (Dump /\ pc = "done") =>
    PrintT(<<"@@CASE", ToJson([p |-> [items |-> items, doc |-> doc, answer |-> answer, canon |-> Canonical(items, doc),
                                      groups |-> groups]])>>)
====
