CONSTANTS
 Alphabet <- MCAlphabet
 RootKinds <- MCRoots
 MaxRoots = 6
 MaxNodes = 4
 MaxDepth = 3
 MinDump = 0
 Dump = TRUE
INIT Init
NEXT Next
INVARIANT TypeOK
CONSTRAINT DumpCase
CHECK_DEADLOCK FALSE
