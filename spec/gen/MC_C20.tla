---- MODULE MC_C20 ----
EXTENDS Unlikely
MCMain   == {120, 300, 499, 500, 501, 700}
MCMarks  == {40, 250}
MCWheres == {"before", "after", "nested", "sibling", "between", "inline", "bare"}
MCHows   == {"class", "id", "role"}
====
