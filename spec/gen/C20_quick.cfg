CONSTANTS
 MainSizes <- MCMain
 MarkSizes <- MCMarks
 Wheres <- MCWheres
 Hows <- MCHows
 MaxMarks = 1
 Threshold = 500
 SecondPassKeepsFlag = FALSE
 CompareLessEq = FALSE
 Dump = TRUE
SPECIFICATION Spec
INVARIANTS PrunedWhenEnoughRemains MarkersIgnoredOtherwise
PROPERTY Terminates
CONSTRAINT DumpCase
CHECK_DEADLOCK FALSE
