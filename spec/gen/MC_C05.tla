---- MODULE MC_C05 ----
(* case generator for C05: abstract documents over the alphabet below *)
EXTENDS DocGen
MCAlphabet == {"P","DIV","H","T","t","INL","A","AJ","FONT","UL","OL","LI","BQ","PRE","IMG","VID","EMB","TW","FIG","FIGL","DT","LT","SKS","SKF"}
MCRoots    == {"P","DIV","H","UL","OL","BQ","PRE","IMG","VID","EMB","TW","FIG","FIGL","DT","LT","SKS","SKF"}
====
