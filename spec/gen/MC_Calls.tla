---- MODULE MC_Calls ----
(* design check of the single-call machine + dump of every (root kind, options) pair *)
EXTENDS Distiller, Json
MCWc == {0, 499, 500, 501}
DumpCase == (pc = "returned") => PrintT(<<"@@CASE", ToJson([root |-> root, opts |-> opts])>>)
====
