CONSTANTS
 Alphabet <- LinkAlphabet
 RootKinds <- LinkRoots
 MaxRoots = 6
 MaxNodes = 5
 MaxDepth = 3
 MinDump = 0
 Dump = TRUE
INIT Init
NEXT Next
INVARIANT TypeOK
CONSTRAINT DumpCase
CHECK_DEADLOCK FALSE
