---- MODULE MC_TextFilters ----
EXTENDS TextFilters
CONSTANT MaxTexts
\* initial lists: the texts 0..n-1 cut into consecutive blocks, nothing content yet
RECURSIVE Asc(_)
Asc(T) == IF T = {} THEN << >> ELSE LET m == CHOOSE x \in T : \A y \in T : x <= y IN <<m>> \o Asc(T \ {m})
InitList(n, cuts) ==
    LET b == Asc(cuts \cup {n})
        lo(j) == IF j = 1 THEN 0 ELSE b[j - 1]
    IN  [j \in 1..Len(b) |-> [texts |-> [x \in 1..(b[j] - lo(j)) |-> lo(j) + x - 1], c |-> FALSE]]
MCInit == \E n \in 1..MaxTexts : \E cuts \in SUBSET (1..(n - 1)) : init = InitList(n, cuts) /\ cur = init
Spec == MCInit /\ [][Next]_vars
====
