\* full feature product, composite step, every vector dumped
CONSTANTS
 RowVals <- MCRows
 ColVals <- MCCols
 Roles <- AllRoles
 DescRoles <- AllDescRoles
 Headers <- AllHeaders
 CellAttrs <- AllCellAttrs
 Objects <- AllObjects
 Dump = TRUE
INIT Init
NEXT NextDecide
INVARIANTS AgreesWithDocumented
CONSTRAINT DumpCase
CHECK_DEADLOCK FALSE
