CONSTANTS
 Alphabet <- MCAlphabet
 RootKinds <- MCRoots
 MaxRoots = 8
 MaxNodes = 24
 MaxDepth = 6
 MinDump = 9
 Dump = TRUE
INIT Init
NEXT Next
INVARIANT TypeOK
CONSTRAINT DumpCase
CHECK_DEADLOCK FALSE
