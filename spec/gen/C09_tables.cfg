\* layout and data tables with text, inline elements and images in their cells (the table paths of both views)
CONSTANTS
 Alphabet <- TblAlphabet
 RootKinds <- TblRoots
 MaxRoots = 2
 MaxNodes = 5
 MaxDepth = 3
 MinDump = 3
 Dump = TRUE
INIT Init
NEXT Next
INVARIANT TypeOK
CONSTRAINT DumpCase
CHECK_DEADLOCK FALSE
