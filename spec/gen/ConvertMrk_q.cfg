CONSTANTS
 Alphabet <- MrkAlphabet
 RootKinds <- MrkRoots
 MaxRoots = 3
 MaxNodes = 4
 MaxDepth = 3
 MinDump = 0
 Dump = FALSE
 SkipFlag = TRUE
 CheckC20 = TRUE
 EmptyBlockFlushes = TRUE
 WalkerCapturesNext = TRUE
SPECIFICATION MSpec
INVARIANTS Inv_C20_SkipEqualsDeleteUnrestricted Inv_C20_NoSkipEqualsNeutral
CONSTRAINT MDump
CHECK_DEADLOCK FALSE
