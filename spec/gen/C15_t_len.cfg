\* thorough: length thresholds, 2/6/40-letter words and a colon word up to 6 tokens, every h1, markup none/ie
CONSTANTS
 TokKinds <- KLength
 MaxLen = 6
 H1s <- AllH1s
 H2s <- H2Long
 Markups <- MNoneIe
 Dump = TRUE
INIT Init
NEXT NextRun
INVARIANTS InvMarkupWins InvNoInvention InvExactWhenPlain InvNonEmpty
CONSTRAINT DumpCase
CHECK_DEADLOCK FALSE
