\* colon rules: words and colon-words up to 11 tokens (heading match, last colon, first colon, more than 5 words before the colon)
CONSTANTS
 TokKinds <- KColon
 MaxLen = 11
 H1s <- HNoneTitle
 H2s <- AllH2s
 Markups <- MNone
 Dump = TRUE
INIT Init
NEXT NextRun
INVARIANTS InvMarkupWins InvNoInvention InvExactWhenPlain InvNonEmpty
CONSTRAINT DumpCase
CHECK_DEADLOCK FALSE
