CONSTANTS
 Alphabet <- MCAlphabet
 RootKinds <- MCRoots
 MaxRoots = 1
 MaxNodes = 6
 MaxDepth = 3
 MinDump = 0
 Dump = TRUE
INIT Init
NEXT Next
INVARIANT TypeOK
CONSTRAINT DumpCase
CHECK_DEADLOCK FALSE
