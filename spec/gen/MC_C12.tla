---- MODULE MC_C12 ----
EXTENDS Concurrent
MCCalls == {1, 2, 3}
MCTrees == {1, 2}
MCOpts  == {1, 2}
\* calls 1 and 2 share tree 1 and options 1; call 3 works on its own tree with shared options 1
MCUsesTree == (1 :> 1) @@ (2 :> 1) @@ (3 :> 2)
MCUsesOpts == (1 :> 1) @@ (2 :> 1) @@ (3 :> 1)
====
