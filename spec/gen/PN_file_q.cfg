\* every pager of <= 3 items over /zqs/file family links
CONSTANTS
 SortedCandidates = TRUE
 Mode = "file"
 MaxLen = 3
 Nums = {1, 2, 3}
 Coords = {1}
 MaxN = 2
 Dump = TRUE
INIT MCInit
NEXT Next
INVARIANTS TypeOK OrderIndependent NeverPlaceHolder AnswerIsALink
CONSTRAINT DumpCase
CHECK_DEADLOCK FALSE
