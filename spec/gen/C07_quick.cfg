CONSTANTS
 Alphabet <- MCAlphabet
 RootKinds <- MCRoots
 MaxRoots = 3
 MaxNodes = 4
 MaxDepth = 5
 MinDump = 0
 Dump = TRUE
INIT Init
NEXT Next
INVARIANT TypeOK
CONSTRAINT DumpCase
CHECK_DEADLOCK FALSE
