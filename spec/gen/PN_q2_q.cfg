\* every pager of <= 3 items over /zqs/x/y links; candidates in sorted order (the code as repaired)
CONSTANTS
 SortedCandidates = TRUE
 Mode = "q2"
 MaxLen = 3
 Nums = {1, 2, 3}
 Coords = {1, 2}
 MaxN = 2
 Dump = TRUE
INIT MCInit
NEXT Next
INVARIANTS TypeOK OrderIndependent NeverPlaceHolder AnswerIsALink
CONSTRAINT DumpCase
CHECK_DEADLOCK FALSE
