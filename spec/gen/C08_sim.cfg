CONSTANTS
 Alphabet <- MCAlphabet
 RootKinds <- MCRoots
 MaxRoots = 8
 MaxNodes = 11
 MaxDepth = 3
 MinDump = 5
 Dump = TRUE
INIT Init
NEXT Next
INVARIANT TypeOK
CONSTRAINT DumpCase
CHECK_DEADLOCK FALSE
