\* sensitivity of the design invariant: text blocks not handed the page URL -> OutputAbsolute must fail
CONSTANTS
 BaseIds <- FewBases
 RefClasses <- AllRefClasses
 Carriers <- TextCarriers
 MaxCand = 1
 FullTuples = FALSE
 Handed <- NoText
 Dump = FALSE
INIT Init
NEXT Next
INVARIANTS OutputAbsolute
CHECK_DEADLOCK FALSE
