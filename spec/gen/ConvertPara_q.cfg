CONSTANTS
 Alphabet <- ParaAlphabet
 RootKinds <- ParaRoots
 MaxRoots = 1
 MaxNodes = 5
 MaxDepth = 3
 MinDump = 0
 Dump = FALSE
 SkipFlag = TRUE
 CheckC20 = FALSE
 EmptyBlockFlushes = TRUE
 EmptyLooksAtChildren = TRUE
 WalkerCapturesNext = TRUE
SPECIFICATION MSpec
INVARIANTS Inv_C02_TextInDocOrderOnce Inv_C04_NoHiddenOrSkipped Inv_C07_TagsBalanced Inv_C07_ChainsMirrorSource Inv_C03_SimpleParaWhole Inv_StepEqualsRun
PROPERTIES AppendOnly WalkTerminates
CONSTRAINT MDump
CHECK_DEADLOCK FALSE
