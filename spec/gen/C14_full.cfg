\* full product of shapes x patterns, every admitted page dumped
CONSTANTS
 OGShapes <- AllOGShapes
 SCShapes <- AllSCShapes
 Pats <- AllPats
 OptOuts <- AllOptOuts
 Orders <- Order0
 Rels <- AllRels
 Dump = TRUE
INIT Init
NEXT Next
INVARIANTS TypeOK MachineMeetsProperty AccessorOrder
CONSTRAINT DumpCase
CHECK_DEADLOCK FALSE
