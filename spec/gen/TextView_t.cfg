\* the code as it is (views repaired, word count per text node): the views agree, the count exceeds by the joints
\* every document <= 4 nodes x every assignment of tight edges; the code as it is for the views, the word count as it should be
CONSTANTS
 Alphabet <- TvAlphabet
 RootKinds <- TvRoots
 MaxRoots = 3
 MaxNodes = 5
 MaxDepth = 3
 MinDump = 0
 Dump = FALSE
 EmptyBlockFlushes = TRUE
 EmptyLooksAtChildren = TRUE
 WalkerCapturesNext = TRUE
 InnerForNestRoots = TRUE
 PadsEveryTextNode = FALSE
 CountsPerTextNode = TRUE
 AllFlagAssignments = FALSE
 SeparatesRunningText = TRUE
SPECIFICATION MSpec
INVARIANTS Inv_ViewsAgree Inv_CountExceedsByJoints
CHECK_DEADLOCK FALSE
