\* every initial block list over <= 6 Text elements x every sequence of filter steps
CONSTANTS
 MaxTexts = 6
INIT MCInit
NEXT Next
INVARIANTS NeverSplit OneFlagPerInitialBlock
CHECK_DEADLOCK FALSE
