\* rule-by-rule machine on a reduced product: order of rules
CONSTANTS
 RowVals <- QRows
 ColVals <- SCols
 Roles <- QRoles
 DescRoles <- QDescRoles
 Headers <- QHeaders
 CellAttrs <- QCellAttrs
 Objects <- QObjects
 Dump = FALSE
INIT Init
NEXT Next
INVARIANTS TypeOK AgreesWithDocumented StepEqualsDecide
CHECK_DEADLOCK FALSE
