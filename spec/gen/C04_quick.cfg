CONSTANTS
 Alphabet <- MCAlphabet
 RootKinds <- MCRoots
 MaxRoots = 2
 MaxNodes = 4
 MaxDepth = 4
 MinDump = 0
 Dump = TRUE
INIT Init
NEXT Next
INVARIANT TypeOK
CONSTRAINT DumpCase
CHECK_DEADLOCK FALSE
