---- MODULE MC_PrevNext ----
(* The conventional pagers of C17 as the prev/next scorer sees them: per URL family the lexical facts of the
   generated links (harness/fam_pager.go convURL), per label set the facts of the labelled links. *)
EXTENDS PrevNext

CONSTANTS MaxN

VARIABLES fam, n, k, lab, numbered
vars == <<fam, n, k, lab, numbered>>
Init == fam \in Fams /\ n \in 2..MaxN /\ k \in 1..MaxN /\ k <= n /\ lab \in LabelSets /\ numbered \in BOOLEAN
Next == UNCHANGED vars

TargetOf(links, i) == IF i = 0 THEN 0 ELSE links[i].target

LabelledLinkWins ==
    LET links == ConvLinks(fam, n, k, lab, numbered)
    IN  /\ k < n => TargetOf(links, Choose(links, TRUE, k)) = k + 1
        /\ (k > 1 /\ lab # "onlynext") => TargetOf(links, Choose(links, FALSE, k)) = k - 1

OnlyAdmitted ==
    LET links == ConvLinks(fam, n, k, lab, numbered)
    IN  \A nx \in BOOLEAN : LET c == Choose(links, nx, k) IN c # 0 => links[c].prefix /\ links[c].abs /\ links[c].same # "current"

ThresholdMatters ==
    LET links == ConvLinks(fam, n, k, lab, numbered)
    IN  \A nx \in BOOLEAN : LET c == Choose(links, nx, k) IN c # 0 => Score(links[c], nx, k) >= 50
====
