---- MODULE MC_C14 ----
(* C14: products of what the three markup sources provide *)
EXTENDS Markup
\* reduced pattern set for the quick tier (rotation by index mod 3 only)
QPats == {"P", "A", "U", "S", "R0", "R1", "R2"}
Order0 == {0}
QRels == {"none", "present"}
====
