\* every pager of <= 4 items over /zqs/view/y links
CONSTANTS
 SortedCandidates = TRUE
 Mode = "file"
 MaxLen = 4
 Nums = {1, 2, 3, 4}
 Coords = {1}
 MaxN = 2
 Dump = TRUE
INIT MCInit
NEXT Next
INVARIANTS TypeOK OrderIndependent NeverPlaceHolder AnswerIsALink
CONSTRAINT DumpCase
CHECK_DEADLOCK FALSE
