\* reduced product, composite step, every vector dumped
CONSTANTS
 RowVals <- QRows
 ColVals <- QCols
 Roles <- QRoles
 DescRoles <- QDescRoles
 Headers <- QHeaders
 CellAttrs <- QCellAttrs
 Objects <- QObjects
 Dump = TRUE
INIT Init
NEXT NextDecide
INVARIANTS AgreesWithDocumented
CONSTRAINT DumpCase
CHECK_DEADLOCK FALSE
