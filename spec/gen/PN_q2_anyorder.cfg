\* candidates in ANY order (what ranging over a Go map does): every reachable answer is dumped next to the canonical one, the pagers whose answer depends on the order are then run repeatedly on the real code
CONSTANTS
 SortedCandidates = FALSE
 Mode = "q2"
 MaxLen = 3
 Nums = {1, 2, 3}
 Coords = {1, 2}
 MaxN = 2
 Dump = TRUE
INIT MCInit
NEXT Next
INVARIANTS TypeOK NeverPlaceHolder AnswerIsALink
CONSTRAINT DumpCase
CHECK_DEADLOCK FALSE
