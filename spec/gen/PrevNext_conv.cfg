\* every conventional pager (5 URL families x N <= 12 x k x 4 label sets x with/without numbered links)
CONSTANTS
 DiffUsesWholeNumbers = TRUE
 MaxN = 12
INIT Init
NEXT Next
INVARIANTS LabelledLinkWins OnlyAdmitted ThresholdMatters
CHECK_DEADLOCK FALSE
