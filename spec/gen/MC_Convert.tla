---- MODULE MC_Convert ----
EXTENDS ConvertMC
ConvAlphabet == {"P","DIV","H","T","t","W","INL","A","AJ","FONT","BR","UL","OL","LI","BQ","PRE","IMG","FIG","DT","HID","HIN","SKS","SKF","LNK","CMT"}
ConvRoots    == {"P","DIV","H","T","UL","OL","BQ","PRE","IMG","FIG","DT","HID","SKS","SKF","LNK","CMT"}
ParaAlphabet == {"P","T","t","W","BR","INL","A","AJ","FONT"}
ParaRoots    == {"P"}
MrkAlphabet  == {"MRK","DIV","P","T","t","INL","UL","LI","IMG","BR"}
MrkRoots     == {"MRK","DIV","P","T","UL","IMG"}
EmptyAlphabet == {"DIV","A","IMG","BR","T"}
EmptyRoots    == {"DIV"}
====
