---- MODULE MC_C03 ----
(* case generator for C03: abstract documents over the alphabet below *)
EXTENDS DocGen
MCAlphabet == {"P","T","t","W","BR","INL","A","AJ","FONT"}
MCRoots    == {"P"}
====
