\* rule-by-rule machine on a small alphabet: every started title computation terminates (liveness under weak fairness)
CONSTANTS
 TokKinds <- KSteps
 MaxLen = 3
 H1s <- AllH1s
 H2s <- AllH2s
 Markups <- MSteps
 Dump = FALSE
SPECIFICATION Spec
INVARIANTS TypeOK
PROPERTY Terminates
CHECK_DEADLOCK FALSE
