\* runs of text, inline elements and non-emitting flushes (form controls, empty headings) side by side in one parent;
\* the driver places them in body, li, blockquote and table cells
CONSTANTS
 Alphabet <- FlatAlphabet
 RootKinds <- FlatAlphabet
 MaxRoots = 5
 MaxNodes = 6
 MaxDepth = 2
 MinDump = 3
 Dump = TRUE
INIT Init
NEXT Next
INVARIANT TypeOK
CONSTRAINT DumpCase
CHECK_DEADLOCK FALSE
