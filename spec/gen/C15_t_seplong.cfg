\* thorough: long separator titles over {word, -, >, |} up to 8 tokens (final part removed and kept)
CONSTANTS
 TokKinds <- KSepLongT
 MaxLen = 8
 H1s <- H1None
 H2s <- H2None
 Markups <- MNoneSchema
 Dump = TRUE
INIT Init
NEXT NextRun
INVARIANTS InvMarkupWins InvNoInvention InvExactWhenPlain InvNonEmpty
CONSTRAINT DumpCase
CHECK_DEADLOCK FALSE
