CONSTANTS
 MaxN = 12
 Families <- MCFamilies
 Seps <- MCSeps
 Wraps <- MCWraps
 Decos <- MCDecos
 Labels <- MCLabels
 HrefKinds <- Q3Hrefs
 LabelKinds <- Q3Labels
 MaxAnchors = 3
 Mode = "mixed"
 Dump = TRUE
INIT Init
NEXT Next
INVARIANT TypeOK
CONSTRAINT DumpCase
CHECK_DEADLOCK FALSE
