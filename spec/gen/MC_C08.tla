---- MODULE MC_C08 ----
(* case generator for C08: abstract documents over the alphabet below *)
EXTENDS DocGen
MCAlphabet == {"P","DIV","T","LNK","IMG","FIG","VID","EMB","TW","DT","UL","LI"}
MCRoots    == {"P","DIV","T","LNK","IMG","FIG","VID","EMB","TW","DT","UL"}
\* linked pictures: an image inside a link (plain or javascript:), with line breaks, in a block without words
LinkAlphabet == {"DIV", "P", "T", "A", "AJ", "IMG", "BR"}
LinkRoots    == {"DIV", "P", "T", "A", "AJ"}
====
