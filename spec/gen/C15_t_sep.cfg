\* thorough: separators flat and hierarchical with hyphenated and colon words, up to 5 tokens, h1 none/long, markup none/schema
CONSTANTS
 TokKinds <- KSepT
 MaxLen = 5
 H1s <- HNoneLong
 H2s <- H2None
 Markups <- MNoneSchema
 Dump = TRUE
INIT Init
NEXT NextRun
INVARIANTS InvMarkupWins InvNoInvention InvExactWhenPlain InvNonEmpty
CONSTRAINT DumpCase
CHECK_DEADLOCK FALSE
