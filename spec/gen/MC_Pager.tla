---- MODULE MC_Pager ----
EXTENDS Pager
MCFamilies == {"query", "path", "pathmid", "pathmidext", "file", "datedfile", "pathslash", "queryid", "queryhtml"}
MCSeps     == {"space", "bar", "none", "comma", "tightbar"}
MCWraps    == {"div", "ulli", "span", "td", "indent"}
MCDecos    == {"span", "strong", "b", "em", "plain", "bracket"}
MCLabels   == {"none", "nextprev", "nextprevious", "raquo", "onlynext"}
MCHrefs    == {"rel", "abs", "absupper", "ftp", "offsite", "lookprefix", "looksuffix", "js", "mailto", "empty", "hash", "malformed", "schemerel", "relnodigit"}
MCLabelKinds == {"num", "next", "prev"}
QHrefs     == {"rel", "abs", "offsite", "lookprefix", "js", "empty", "hash", "malformed", "schemerel"}
Q3Hrefs    == {"rel", "abs", "js", "empty", "ftp"}
Q3Labels   == {"num", "next"}
====
