---- MODULE MC_C06 ----
(* C06: bases x reference classes x carriers (x srcset shapes) of UrlResolve *)
EXTENDS UrlResolve
AllKinds == ElementKinds
\* the design error that text blocks are not handed the page URL (expected counterexample)
NoText == ElementKinds \ {"text"}
TextCarriers == {"a_para", "a_li", "img_src"}
FewBases == {"file", "root0"}
====
