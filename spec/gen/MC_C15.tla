---- MODULE MC_C15 ----
(* C15: token alphabets and page products of the title generator (spec/Title.tla) *)
EXTENDS Title
\* rule-by-rule machine, every branch family present
KSteps    == {"w6", "hy", "c6", "bar", "slash"}
MSteps    == {"none", "og"}
\* all twelve token kinds, short sequences
MNoneOg   == {"none", "og"}
\* colon rules need up to nine tokens ("more than 5 words before the colon")
KColon    == {"w6", "c6"}
HNoneTitle == {"none", "title"}
MNone     == {"none"}
\* length thresholds 15 / 150
KLength   == {"w2", "w6", "w40", "c2"}
H2None    == {"none"}
H2Long    == {"none", "long"}     \* an h2 with other words: never a source of the title
MNoneIe   == {"none", "ie"}
\* separators: flat and hierarchical, hyphenated words, short first parts
KSep      == {"w2", "w6", "hy", "dash", "bar", "raquo"}
KSepT     == {"w2", "w6", "hy", "c6", "dash", "bar", "bslash", "gt"}
KSepLong  == {"w6", "dash", "gt"}
KSepLongT == {"w6", "dash", "gt", "bar"}
H1None    == {"none"}
HNoneLong == {"none", "long"}
MNoneSchema == {"none", "schema"}
====
