\* every document <= 4 nodes x every flag assignment
CONSTANTS
 Alphabet <- RenAlphabet
 RootKinds <- RenRoots
 MaxRoots = 3
 MaxNodes = 4
 MaxDepth = 4
 MinDump = 0
 Dump = FALSE
 EmptyBlockFlushes = TRUE
 EmptyLooksAtChildren = TRUE
 WalkerCapturesNext = TRUE
 InnerForNestRoots = TRUE
SPECIFICATION MSpec
INVARIANTS Inv_RenderBalanced Inv_RenderOnceInOrder Inv_RenderOnlyContent Inv_RenderChains
CHECK_DEADLOCK FALSE
