\* extractor-by-extractor machine on a reduced product: order of the extractors
CONSTANTS
 Carriers <- SCarriers
 Schemes <- SSchemes
 Users <- SUsers
 HostShapes <- SHosts
 Roots <- AllRoots
 Paths <- SPaths
 Queries <- SQF
 Frags <- SQF
 AllPathsOffList = TRUE
 Dump = FALSE
INIT Init
NEXT Next
INVARIANTS TypeOK AgreesWithExpected OnlyAllowed StepEqualsDecide
CHECK_DEADLOCK FALSE
