---- MODULE MC_C19 ----
(* C19: the product of carriers x source URLs of spec/Embed.tla *)
EXTENDS Embed
\* path shapes: nothing, "/", id with the usual prefixes, trailing slash, empty segments,
\* the reserved words alone, the root name as a path segment
MCPaths == { <<>>, <<"">>, <<"ID">>, <<"embed", "ID">>, <<"v", "ID">>, <<"video", "ID">>, <<"u", "status", "ID">>,
             <<"embed", "ID", "">>, <<"video", "", "ID", "", "">>,
             <<"embed">>, <<"embed", "">>, <<"video">>, <<"video", "">>, <<"v">>,
             <<"ROOT", "embed", "ID">>, <<"channels", "ID", "video", "">> }
\* reduced product for the extractor-by-extractor machine
SCarriers == {"iframe", "iframeTid", "objParam", "bq", "bqNoAnchor"}
SSchemes == {"https", "schemeRel", "relPath"}
SUsers == {"none", "hostlike"}
SHosts == {"root", "deep", "suffixEvil", "prefixEvil", "other"}
SPaths == { <<>>, <<"embed", "ID">>, <<"video", "ID", "">>, <<"embed">>, <<"video", "">>, <<"u", "status", "ID">>,
            <<"ROOT", "embed", "ID">> }
SQF == {"none", "hostlike"}
====
