---- MODULE MC_TextView ----
EXTENDS TextViewMC
TvAlphabet == {"P","DIV","H","T","INL","A","AJ","BR","LI","UL","IMG","SHR","SKF"}
TvRoots    == {"P","DIV","H","T","UL","INL","A","IMG","SHR","SKF"}
\* the smallest alphabet that shows defect 31 (two inline-rooted text blocks around an empty paragraph)
D31Alphabet == {"P", "T", "A", "INL"}
D31Roots    == {"P", "A", "INL"}
====
