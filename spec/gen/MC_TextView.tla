---- MODULE MC_TextView ----
EXTENDS TextViewMC
TvAlphabet == {"P","DIV","H","T","INL","A","AJ","BR","LI","UL","IMG","SHR","SKF"}
TvRoots    == {"P","DIV","H","T","UL","INL","A","IMG","SHR","SKF"}
====
