---- MODULE MC_Render ----
EXTENDS RenderMC
RenAlphabet == {"P","DIV","H","T","t","W","INL","A","AJ","FONT","BR","UL","OL","LI","BQ","PRE","IMG","FIG","DT","HID","SKF","CMT"}
RenRoots    == {"P","DIV","H","T","UL","OL","BQ","PRE","IMG","DT","INL","A","SKF"}
====
