---- MODULE MC_C07 ----
(* case generator for C07: abstract documents over the alphabet below *)
EXTENDS DocGen
MCAlphabet == {"UL","OL","LI","BQ","PRE","P","DIV","T","t","INL","IMG","DT","LNK","TW"}
MCRoots    == {"UL","OL","BQ","PRE","P","DT","LNK","TW","T"}
====
