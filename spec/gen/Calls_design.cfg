CONSTANTS
 WcVals <- MCWc
 Threshold = 500
SPECIFICATION Spec
INVARIANTS TypeOK WellFormed TwoPassRule OptionsOnlyWhatTheySay CallerUntouched
PROPERTY Terminates
CONSTRAINT DumpCase
CHECK_DEADLOCK FALSE
