\* the conventional pagers of C17, N <= 12: the model resolves every (N, k) exactly
CONSTANTS
 SortedCandidates = TRUE
 Mode = "conv"
 MaxLen = 2
 Nums = {1}
 Coords = {1}
 MaxN = 12
 Dump = TRUE
INIT MCInit
NEXT Next
INVARIANTS TypeOK Conventional OrderIndependent NeverPlaceHolder AnswerIsALink
CONSTRAINT DumpCase
CHECK_DEADLOCK FALSE
