CONSTANTS
 Calls <- MCCalls
 Trees <- MCTrees
 OptVals <- MCOpts
 UsesTree <- MCUsesTree
 UsesOpts <- MCUsesOpts
 ConvertOnOriginal = FALSE
 MemoInGlobal = FALSE
 WriteOptions = FALSE
SPECIFICATION Spec
INVARIANTS NoSharedWrite SoloEquivalence
PROPERTY AllReturn
CHECK_DEADLOCK FALSE
