\* long separator titles: 5 words or more before the last separator (final part removed and kept), up to 7 tokens
CONSTANTS
 TokKinds <- KSepLong
 MaxLen = 7
 H1s <- H1None
 H2s <- H2None
 Markups <- MNoneSchema
 Dump = TRUE
INIT Init
NEXT NextRun
INVARIANTS InvMarkupWins InvNoInvention InvExactWhenPlain InvNonEmpty
CONSTRAINT DumpCase
CHECK_DEADLOCK FALSE
