\* reduced product (patterns P, A and the rotation by index mod 3), every admitted page dumped
CONSTANTS
 OGShapes <- AllOGShapes
 SCShapes <- AllSCShapes
 Pats <- QPats
 OptOuts <- AllOptOuts
 Orders <- Order0
 Rels <- QRels
 Dump = TRUE
INIT Init
NEXT Next
INVARIANTS TypeOK MachineMeetsProperty AccessorOrder
CONSTRAINT DumpCase
CHECK_DEADLOCK FALSE
