---- MODULE MC_C02 ----
(* case generator for C02: abstract documents over the alphabet below *)
EXTENDS DocGen
MCAlphabet == {"P","DIV","H","T","t","INL","A","AJ","FONT","BR","UL","LI","BQ","PRE","IMG","FIG","FIGL","DT","LT","HID","HIN","SKS","SKF","LNK","CMT"}
MCRoots    == {"P","DIV","H","T","UL","BQ","PRE","IMG","FIG","FIGL","DT","LT","HID","SKS","SKF","LNK","CMT"}
FlatAlphabet == {"T", "INL", "SKF", "H", "BR", "SHR"}
====
