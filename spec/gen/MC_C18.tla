---- MODULE MC_C18 ----
(* C18: feature products of the table classifier *)
EXTENDS TableClass
MCRows == {1, 2, 3, 5, 19, 20, 22}
MCCols == {1, 2, 4, 5}
\* reduced product for the quick tier / the rule-by-rule machine
QRows == {1, 2, 5, 6, 20, 22}
QCols == {1, 2, 4, 5}
SCols == {1, 2, 5}      \* the rule-by-rule machine: one value per side of every column threshold
QRoles == {"none", "presentation", "grid", "landmark"}
QDescRoles == {"none", "tableRole"}
QHeaders == {"none", "caption", "col", "th", "rowth"}
QCellAttrs == {"none", "scope", "loneAbbr"}
QObjects == {"none", "iframe"}
====
