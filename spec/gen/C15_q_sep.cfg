\* separators: flat and hierarchical, hyphenated words, short first parts, up to 4 tokens
CONSTANTS
 TokKinds <- KSep
 MaxLen = 4
 H1s <- HNoneLong
 H2s <- H2None
 Markups <- MNoneSchema
 Dump = TRUE
INIT Init
NEXT NextRun
INVARIANTS InvMarkupWins InvNoInvention InvExactWhenPlain InvNonEmpty
CONSTRAINT DumpCase
CHECK_DEADLOCK FALSE
