\* all twelve token kinds, sequences up to 3, every h1/h2, markup none/og; composite step, every case dumped
CONSTANTS
 TokKinds <- AllToks
 MaxLen = 3
 H1s <- AllH1s
 H2s <- AllH2s
 Markups <- MNoneOg
 Dump = TRUE
INIT Init
NEXT NextRun
INVARIANTS InvMarkupWins InvNoInvention InvExactWhenPlain InvNonEmpty
CONSTRAINT DumpCase
CHECK_DEADLOCK FALSE
