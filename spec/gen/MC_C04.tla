---- MODULE MC_C04 ----
(* case generator for C04: abstract documents over the alphabet below *)
EXTENDS DocGen
MCAlphabet == {"P","DIV","T","t","UL","LI","DT","LT","FIG","FIGL","TW","HID","HIN","SKS","SKF","CMT","INL","AJ"}
MCRoots    == {"P","DIV","UL","DT","LT","FIG","FIGL","TW","HID","SKS","SKF","CMT"}
====
