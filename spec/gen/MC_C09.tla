---- MODULE MC_C09 ----
(* case generator for C09: abstract documents over the alphabet below *)
EXTENDS DocGen
MCAlphabet == {"P","DIV","H","T","t","INL","A","UL","LI","BQ","IMG","VID","EMB","TW","FIG","FIGL","DT","LT","HIN","LNK"}
MCRoots    == {"P","DIV","H","T","UL","BQ","IMG","VID","EMB","TW","FIG","FIGL","DT","LT","LNK"}
TblAlphabet == {"LT", "DT", "T", "t", "IMG", "INL", "A", "P", "SHR", "CMT", "DIV"}
TblRoots    == {"LT", "DT", "T", "DIV"}
\* list items holding blocks next to bare text and inline elements: one text block whose clone has block children
LiAlphabet == {"UL", "LI", "DIV", "P", "H", "T", "INL", "A", "BR"}
LiRoots    == {"UL"}
====
