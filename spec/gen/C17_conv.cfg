CONSTANTS
 MaxN = 12
 Families <- MCFamilies
 Seps <- MCSeps
 Wraps <- MCWraps
 Decos <- MCDecos
 Labels <- MCLabels
 HrefKinds <- MCHrefs
 LabelKinds <- MCLabelKinds
 MaxAnchors = 1
 Mode = "conv"
 Dump = TRUE
INIT Init
NEXT Next
INVARIANT TypeOK
CONSTRAINT DumpCase
CHECK_DEADLOCK FALSE
