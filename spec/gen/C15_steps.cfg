\* rule-by-rule machine on a reduced alphabet: branch order, range bookkeeping, property invariants
CONSTANTS
 TokKinds <- KSteps
 MaxLen = 4
 H1s <- AllH1s
 H2s <- AllH2s
 Markups <- MSteps
 Dump = FALSE
INIT Init
NEXT Next
INVARIANTS TypeOK InvMarkupWins InvNoInvention InvExactWhenPlain InvRangeOrH1 InvNonEmpty StepEqualsRun
CHECK_DEADLOCK FALSE
