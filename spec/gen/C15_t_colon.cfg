\* thorough: colon rules, words and colon-words up to 12 tokens, every h1/h2
CONSTANTS
 TokKinds <- KColon
 MaxLen = 12
 H1s <- AllH1s
 H2s <- AllH2s
 Markups <- MNone
 Dump = TRUE
INIT Init
NEXT NextRun
INVARIANTS InvMarkupWins InvNoInvention InvExactWhenPlain InvNonEmpty
CONSTRAINT DumpCase
CHECK_DEADLOCK FALSE
