------------------------------ MODULE TextView ------------------------------
(***************************************************************************)
(* The two views of the distilled content and the word count              *)
(*   internal/webdoc/text.go      Text.GenerateOutput(textOnly)            *)
(*   internal/domutil/domutil.go  InnerText                                *)
(*   internal/webdoc/text-builder.go  NumWords                             *)
(* on top of Render.tla (which produces the item sequence of the HTML      *)
(* view).                                                                  *)
(*                                                                         *)
(* Every word node of the source carries one word; `tight` says for each   *)
(* of them whether its text starts / ends INSIDE a word (no blank at that  *)
(* edge): "T" "he" in <h1><span>T</span>he ...</h1>, "10" "th" in          *)
(* 10<sup>th</sup>.  A WORD of a view is a maximal run of word nodes that  *)
(* touch: tight on both sides of every joint and nothing that is a box of  *)
(* its own (a non-inline element, a media element) in between.             *)
(*                                                                         *)
(*   HtmlWords    the words a reader of the distilled HTML sees            *)
(*   TextWords    the words of Result.Text: every content element is       *)
(*                rendered on its own and the pieces are joined by line    *)
(*                breaks; within an element InnerText decides              *)
(*   NumWords     what the word counter adds up                            *)
(*                                                                         *)
(* Toggles (defects that existed / exist in the code):                     *)
(*   PadsEveryTextNode  = TRUE   InnerText put blanks around every text    *)
(*                               node: a word continuing across an inline  *)
(*                               element was split (repaired in 99ea2b7)   *)
(*   SeparatesRunningText = FALSE  two text blocks in a row whose roots are  *)
(*                               inline elements of the body were emitted   *)
(*                               back to back: <b>HERE</b><b>THERE</b>      *)
(*                               (found by TLC on this model, repaired in   *)
(*                               0b5c3f9)                                   *)
(*   CountsPerTextNode  = TRUE   the word counter counts every text node   *)
(*                               on its own (the code; recorded finding    *)
(*                               C09 / word-continues-across-inline-...)   *)
(*                                                                         *)
(* Checked by TLC (spec/gen/MC_TextView.tla) for every document of the     *)
(* bound and every assignment of tight edges:                              *)
(*   ViewsAgree          TextWords = HtmlWords                     (C09)   *)
(*   CountMatchesText    NumWords = number of TextWords            (C09)   *)
(*   CountExceedsByJoints  NumWords - number of TextWords = number of      *)
(*                       joints (what the class of the recorded finding    *)
(*                       is computed from)                                 *)
(***************************************************************************)
EXTENDS Render

CONSTANTS PadsEveryTextNode, CountsPerTextNode, SeparatesRunningText

\* ---- words of an item sequence ------------------------------------------------
\* tight[n] = [l |-> BOOLEAN, r |-> BOOLEAN] for every word node n
IsBox(x) == x.t = "m" \/ (x.t \in {"open", "close"} /\ x.k \notin InlineK)

\* fold: cur = the word being built (node ids), acc = finished words, sep = a box was passed since the last word node
RECURSIVE WordsFrom(_, _, _, _, _, _, _)
WordsFrom(items, i, tight, pads, cur, acc, sep) ==
    IF i > Len(items) THEN (IF cur = << >> THEN acc ELSE Append(acc, cur))
    ELSE LET x == items[i] IN
         IF x.t = "w"
         THEN IF cur # << >> /\ ~sep /\ ~pads /\ tight[cur[Len(cur)]].r /\ tight[x.n].l
              THEN WordsFrom(items, i + 1, tight, pads, Append(cur, x.n), acc, FALSE)
              ELSE WordsFrom(items, i + 1, tight, pads, <<x.n>>, IF cur = << >> THEN acc ELSE Append(acc, cur), FALSE)
         ELSE WordsFrom(items, i + 1, tight, pads, cur, acc, sep \/ IsBox(x))
Words(items, tight, pads) == WordsFrom(items, 1, tight, pads, << >>, << >>, FALSE)

\* ---- the two views ----------------------------------------------------------------
\* Document.GenerateOutput(false): the content elements in list order; between two TEXT elements that meet as running
\* text (bare text or an inline element on either side) a blank is written
Blank == [t |-> "m", k |-> "BLANK", n |-> 0]          \* a separator item (a box as far as words are concerned)
StartsRunning(items) == items # << >> /\ (items[1].t = "w" \/ (items[1].t = "open" /\ items[1].k \in InlineK))
EndsRunning(items)   == items # << >> /\ LET x == items[Len(items)] IN x.t = "w" \/ (x.t = "close" /\ x.k \in InlineK)
RECURSIVE HtmlFrom(_, _, _, _, _, _)
HtmlFrom(doc, es, flags, i, acc, afterText) ==
    IF i > Len(es) THEN acc
    ELSE IF ~flags[i] THEN HtmlFrom(doc, es, flags, i + 1, acc, afterText)
    ELSE LET out == RenderElem(doc, es[i])
             isText == es[i].t = "text"
             sep == SeparatesRunningText /\ isText /\ afterText /\ StartsRunning(out) /\ EndsRunning(acc)
         IN  HtmlFrom(doc, es, flags, i + 1, acc \o (IF sep THEN <<Blank>> ELSE << >>) \o out,
                      IF out = << >> THEN afterText ELSE isText)
HtmlItems(doc, es, flags) == HtmlFrom(doc, es, flags, 1, << >>, FALSE)
HtmlWords(doc, es, flags, tight) == Words(HtmlItems(doc, es, flags), tight, FALSE)

\* Result.Text: one piece per content element, joined by line breaks
RECURSIVE TextFrom(_, _, _, _, _)
TextFrom(doc, es, flags, tight, i) ==
    IF i > Len(es) THEN << >>
    ELSE (IF flags[i] /\ es[i].t = "text" THEN Words(RenderElem(doc, es[i]), tight, PadsEveryTextNode) ELSE << >>)
         \o TextFrom(doc, es, flags, tight, i + 1)
TextWords(doc, es, flags, tight) == TextFrom(doc, es, flags, tight, 1)

\* the word nodes of the content text elements
ContentNodes(doc, es, flags) ==
    {n \in 1..Len(doc) : WordNode(doc, n) /\ \E i \in 1..Len(es) : flags[i] /\ es[i].t = "text"
                                              /\ \E x \in 1..Len(es[i].nodes) : es[i].nodes[x] = n}
NumWords(doc, es, flags, tight) ==
    IF CountsPerTextNode THEN Cardinality(ContentNodes(doc, es, flags))
    ELSE Len(TextWords(doc, es, flags, tight))

\* places where a word continues from one text node into the next
Joints(ws) == LET RECURSIVE f(_)
                  f(k) == IF k > Len(ws) THEN 0 ELSE (Len(ws[k]) - 1) + f(k + 1)
              IN  f(1)

\* ---- properties --------------------------------------------------------------------
ViewsAgree(doc, es, flags, tight) == TextWords(doc, es, flags, tight) = HtmlWords(doc, es, flags, tight)
CountMatchesText(doc, es, flags, tight) == NumWords(doc, es, flags, tight) = Len(TextWords(doc, es, flags, tight))
CountExceedsByJoints(doc, es, flags, tight) ==
    NumWords(doc, es, flags, tight) - Len(TextWords(doc, es, flags, tight)) =
        (IF CountsPerTextNode THEN Joints(TextWords(doc, es, flags, tight)) ELSE 0)
=============================================================================
