------------------------------- MODULE Title -------------------------------
(***************************************************************************)
(* The document-title mechanism behind property C15:                       *)
(*   internal/extractor/content.go   ensureTitleInitialized / ExtractTitle *)
(*   internal/extractor/document-title.go   getDocumentTitle               *)
(*                                                                         *)
(*  - A <title> is a sequence of TOKENS (what a page author writes):       *)
(*    plain words of 2 / 6 / 40 letters, a hyphenated word "abc-def", a    *)
(*    word followed by a colon "w:", and the six separators | - / \ > »    *)
(*    written with a space on both sides.  Tokens are joined by one space  *)
(*    (that is what whitespace normalisation leaves).                      *)
(*  - Atoms(toks) is the title as a sequence of ATOMS - the "characters"   *)
(*    of the model: a word piece (k = "w", n letters, identity (t, p) =    *)
(*    token index and part), a space, a colon, or one of the separator     *)
(*    characters.  The hyphen inside a hyphenated word and the dash of the *)
(*    " - " separator are the same character, as in the code's regexps.    *)
(*  - The machine transcribes getDocumentTitle branch by branch on atom    *)
(*    sequences: every regexp of the code is an operator on atoms.  The    *)
(*    current title is always a contiguous range lo..hi of the original    *)
(*    title, or the first h1's text - which is what NoInvention claims,    *)
(*    and what TLC checks independently on the machine's final value.      *)
(*  - The property's invariants are stated on (page facts, result) only:   *)
(*    MarkupWins, NoInvention, ExactWhenPlain.  The trace specification    *)
(*    TitleTrace evaluates the same predicates on real runs.               *)
(***************************************************************************)
EXTENDS Integers, Sequences, FiniteSets, TLC, Json

CONSTANTS TokKinds,   \* token kinds to enumerate (subset of AllToks)
          MaxLen,     \* longest token sequence
          H1s, H2s,   \* first h1: none / title / short / long; h2: none / title / long (other words)
          Markups,    \* markup title: none / og / schema / ie
          Dump

WordToks  == {"w2", "w6", "w40"}
ColonToks == {"c2", "c6"}
SepToks   == {"bar", "dash", "slash", "bslash", "gt", "raquo"}
HierToks  == {"slash", "bslash", "gt", "raquo"}
AllToks   == WordToks \cup ColonToks \cup SepToks \cup {"hy"}
AllH1s    == {"none", "title", "short", "long"}
AllH2s    == {"none", "title"}
KnownH2s  == AllH2s \cup {"long"}       \* "long": an h2 with other words (it must never become the title)
AllMarkups == {"none", "og", "schema", "ie"}
ASSUME TokKinds \subseteq AllToks /\ H1s \subseteq AllH1s /\ H2s \subseteq KnownH2s /\ Markups \subseteq AllMarkups

\* ---- atoms ---------------------------------------------------------------
SP        == [k |-> "sp", n |-> 1, t |-> 0, p |-> 0]
Ch(c)     == [k |-> c, n |-> 1, t |-> 0, p |-> 0]
W(len, i, part) == [k |-> "w", n |-> len, t |-> i, p |-> part]

WordLen(tok) == CASE tok \in {"w2", "c2"} -> 2 [] tok \in {"w6", "c6"} -> 6 [] tok = "w40" -> 40 [] OTHER -> 3

TokAtoms(tok, i) ==
    CASE tok \in WordToks  -> << W(WordLen(tok), i, 1) >>
      [] tok \in ColonToks -> << W(WordLen(tok), i, 1), Ch("colon") >>
      [] tok = "hy"        -> << W(3, i, 1), Ch("dash"), W(3, i, 2) >>
      [] OTHER             -> << Ch(tok) >>

RECURSIVE AtomsUpTo(_, _)
AtomsUpTo(toks, i) ==
    IF i = 0 THEN << >>
    ELSE (IF i = 1 THEN << >> ELSE AtomsUpTo(toks, i - 1) \o << SP >>) \o TokAtoms(toks[i], i)
Atoms(toks) == AtomsUpTo(toks, Len(toks))

\* the other texts of a page, as atoms of their own vocabularies
RECURSIVE WordRun(_, _, _)
WordRun(kind, len, cnt) ==
    IF cnt = 0 THEN << >>
    ELSE (IF cnt = 1 THEN << >> ELSE WordRun(kind, len, cnt - 1) \o << SP >>)
         \o << [k |-> kind, n |-> len, t |-> cnt, p |-> 0] >>
MarkupWords == 3
MarkupAtoms == WordRun("m", 5, MarkupWords)          \* "mkaxx mkbxx mkcxx"
H1ShortWords == 2
H1LongWords  == 6
OtherH1Atoms(cnt) == WordRun("h", 4, cnt)            \* "hdax hdbx ..."

\* ---- the code's string operations, on atoms ------------------------------
IsSep(a)   == a.k \in SepToks
IsHier(a)  == a.k \in HierToks
IsWord(a)  == a.k \in {"w", "h", "m"}
MaxOf(S)   == CHOOSE x \in S : \A y \in S : x >= y
MinOf(S)   == CHOOSE x \in S : \A y \in S : x <= y

\* rxTitleSeparator ` [|\-\\/>»] ` and rxTitleHierarchySep ` [\\/>»] `
SepAt(A, i)       == i + 2 <= Len(A) /\ A[i] = SP /\ IsSep(A[i + 1]) /\ A[i + 2] = SP
HasSepPattern(A)  == \E i \in 1..Len(A) : SepAt(A, i)
HasHierPattern(A) == \E i \in 1..Len(A) : SepAt(A, i) /\ IsHier(A[i + 1])
\* strings.Index(s, ": ") # -1
HasColonSpace(A)  == \E i \in 1..(Len(A) - 1) : A[i].k = "colon" /\ A[i + 1] = SP
Colons(A)         == {i \in 1..Len(A) : A[i].k = "colon"}

\* rxTitleRemoveFinalPart `(.*)[|\-\\/>»] .*` -> $1 : greedy, so everything before the LAST
\* separator character that is followed by a space
LastSepBeforeSpace(A) == MaxOf({j \in 1..(Len(A) - 1) : IsSep(A[j]) /\ A[j + 1] = SP})
\* rxTitleRemove1stPart `[^|\-\\/>»]*[|\-\\/>»](.*)` -> $1 : everything after the FIRST separator
\* character (a hyphen inside a word is one)
FirstSepChar(A)       == MinOf({j \in 1..Len(A) : IsSep(A[j])})

RECURSIVE CharsIn(_, _, _)
CharsIn(A, lo, hi) == IF lo > hi THEN 0 ELSE A[hi].n + CharsIn(A, lo, hi - 1)
Chars(A) == CharsIn(A, 1, Len(A))

\* wc.Count: whitespace-delimited chunks holding at least one word character
FirstWordOfChunk(A, lo, i) ==
    /\ IsWord(A[i])
    /\ \A j \in lo..(i - 1) : (\A m \in j..(i - 1) : A[m] # SP) => ~IsWord(A[j])
WordsIn(A, lo, hi) == Cardinality({i \in lo..hi : FirstWordOfChunk(A, lo, i)})
Words(A) == WordsIn(A, 1, Len(A))

\* strings.TrimSpace + Fields/Join on a range of an already normalised string
TrimLo(A, lo, hi) == IF \E i \in lo..hi : A[i] # SP THEN MinOf({i \in lo..hi : A[i] # SP}) ELSE hi + 1
TrimHi(A, lo, hi) == IF \E i \in lo..hi : A[i] # SP THEN MaxOf({i \in lo..hi : A[i] # SP}) ELSE hi

\* ---- page facts the mechanism reads ---------------------------------------
\*   A    the <title> text (normalised) as atoms
\*   h1p  there is an h1;  h1a  the first h1's text as atoms
\*   hm   some h1/h2 has exactly the title as its text
\*   mk   the markup parsers supply a title;  mka  its atoms
PageFacts(toks, pg) ==
    LET A == Atoms(toks) IN
    [A   |-> A,
     h1p |-> pg.h1 # "none",
     h1a |-> CASE pg.h1 = "title" -> A [] pg.h1 = "short" -> OtherH1Atoms(H1ShortWords)
               [] pg.h1 = "long" -> OtherH1Atoms(H1LongWords) [] OTHER -> << >>,
     hm  |-> pg.h1 = "title" \/ pg.h2 = "title",
     mk  |-> pg.mk # "none",
     mka |-> IF pg.mk # "none" THEN MarkupAtoms ELSE << >>]

\* ---- the step machine -------------------------------------------------------
\* lo..hi : the current title as a range of f.A;  useH1 : the current title is the h1 text
\* hier   : titleHadHierarchicalSeparators;  br : the branch taken (class of the case)
Start == [pc |-> "start", lo |-> 1, hi |-> 0, useH1 |-> FALSE, hier |-> FALSE, br |-> "",
          doc |-> << >>, title |-> << >>]
Idle  == [Start EXCEPT !.pc = "grow"]

CurWords(f, s) == IF s.useH1 THEN Words(f.h1a) ELSE WordsIn(f.A, s.lo, s.hi)
CurAtoms(f, s) == IF s.useH1 THEN f.h1a ELSE SubSeq(f.A, s.lo, s.hi)

StepF(f, s) ==
    LET A == f.A
        n == Len(f.A)
    IN
    CASE s.pc = "start" ->
            \* curTitle = origTitle = InnerText(<title>)
            IF HasSepPattern(A)
            THEN [s EXCEPT !.pc = "sepShort", !.hier = HasHierPattern(A),
                           !.lo = 1, !.hi = LastSepBeforeSpace(A) - 1, !.br = "sep"]
            ELSE IF HasColonSpace(A) THEN [s EXCEPT !.pc = "colonHeading", !.lo = 1, !.hi = n, !.br = "colon"]
            ELSE IF Chars(A) > 150 \/ Chars(A) < 15
                 THEN [s EXCEPT !.pc = "lenH1", !.lo = 1, !.hi = n, !.br = IF Chars(A) < 15 THEN "short" ELSE "long"]
            ELSE [s EXCEPT !.pc = "norm", !.lo = 1, !.hi = n, !.br = "plain"]
      [] s.pc = "sepShort" ->
            \* fewer than 3 words left: remove the first part instead
            IF WordsIn(A, s.lo, s.hi) < 3
            THEN [s EXCEPT !.pc = "norm", !.lo = FirstSepChar(A) + 1, !.hi = n, !.br = "sep.first"]
            ELSE [s EXCEPT !.pc = "norm", !.br = "sep.final"]
      [] s.pc = "colonHeading" ->
            \* a heading carrying exactly the title: it is the full title
            IF f.hm THEN [s EXCEPT !.pc = "norm", !.br = "colon.match"]
            ELSE [s EXCEPT !.pc = "colonLast", !.lo = MaxOf(Colons(A)) + 1, !.hi = n]
      [] s.pc = "colonLast" ->
            IF WordsIn(A, s.lo, s.hi) < 3
            THEN [s EXCEPT !.pc = "norm", !.lo = MinOf(Colons(A)) + 1, !.br = "colon.first"]
            ELSE IF WordsIn(A, 1, MinOf(Colons(A)) - 1) > 5
                 THEN [s EXCEPT !.pc = "norm", !.lo = 1, !.hi = n, !.br = "colon.many"]
            ELSE [s EXCEPT !.pc = "norm", !.br = "colon.last"]
      [] s.pc = "lenH1" ->
            IF f.h1p THEN [s EXCEPT !.pc = "norm", !.useH1 = TRUE, !.br = s.br \o ".h1"]
            ELSE [s EXCEPT !.pc = "norm", !.br = s.br \o ".noh1"]
      [] s.pc = "norm" ->
            IF s.useH1 THEN [s EXCEPT !.pc = "final"]
            ELSE [s EXCEPT !.pc = "final", !.lo = TrimLo(A, s.lo, s.hi), !.hi = TrimHi(A, s.lo, s.hi)]
      [] s.pc = "final" ->
            \* 4 words or fewer, and either no hierarchical separator or not exactly one word
            \* fewer than the original: the original title
            LET w == CurWords(f, s) IN
            IF w <= 4 /\ n > 0 /\ (~s.hier \/ w # Words(A) - 1)
            THEN [s EXCEPT !.pc = "candidates", !.doc = A,
                           !.br = s.br \o (IF s.hier THEN "/orig-hier" ELSE "/orig")]
            ELSE [s EXCEPT !.pc = "candidates", !.doc = CurAtoms(f, s),
                           !.br = s.br \o (IF n = 0 THEN "/empty" ELSE IF w <= 4 THEN "/kept-hier" ELSE "/kept")]
      [] s.pc = "candidates" ->
            \* ensureTitleInitialized: markup title first, then the document title; ExtractTitle: the first
            LET cands == (IF f.mk THEN << f.mka >> ELSE << >>) \o << s.doc >>
            IN  [s EXCEPT !.pc = "done", !.title = cands[1]]
      [] OTHER -> s

RECURSIVE RunFrom(_, _)
RunFrom(f, s) == IF s.pc = "done" THEN s ELSE RunFrom(f, StepF(f, s))
Run(f) == RunFrom(f, Start)

\* ---- the property, on page facts and a result title ------------------------
IsContiguousPart(r, A) == \E i \in 1..(Len(A) + 1), j \in 0..Len(A) : r = SubSeq(A, i, j)

MarkupWins(f, title)  == f.mk => title = f.mka
NoInvention(f, title) == f.mk \/ title = f.A \/ IsContiguousPart(title, f.A) \/ (f.h1p /\ title = f.h1a)
IsPlain(A)            == Chars(A) >= 15 /\ Chars(A) <= 150 /\ ~HasSepPattern(A) /\ ~HasColonSpace(A)
ExactWhenPlain(f, title) == (~f.mk /\ IsPlain(f.A)) => title = f.A

\* ---- generator: grow a token sequence, pick the page, run the machine ------
VARIABLES toks, pg, ms
vars == <<toks, pg, ms>>

NoPage == [h1 |-> "none", h2 |-> "none", mk |-> "none"]

Init == toks = << >> /\ pg = NoPage /\ ms = Idle

Grow == /\ ms.pc = "grow" /\ Len(toks) < MaxLen
        /\ \E k \in TokKinds : toks' = Append(toks, k)
        /\ UNCHANGED <<pg, ms>>

Pages == {q \in [h1 : H1s, h2 : H2s, mk : Markups] : (q.h1 = "title" \/ q.h2 = "title") => Len(toks) > 0}

Pick == /\ ms.pc = "grow"
        /\ \E q \in Pages : pg' = q
        /\ ms' = Start
        /\ UNCHANGED toks

Step == /\ ms.pc \notin {"grow", "done"}
        /\ ms' = StepF(PageFacts(toks, pg), ms)
        /\ UNCHANGED <<toks, pg>>

\* all steps of one title computation composed (one state per case)
PickRun == /\ ms.pc = "grow"
           /\ \E q \in Pages : pg' = q /\ ms' = Run(PageFacts(toks, q))
           /\ UNCHANGED toks

Next    == Grow \/ Pick \/ Step
NextRun == Grow \/ PickRun
Spec    == Init /\ [][Next]_vars /\ WF_vars(Next)

Pcs == {"grow", "start", "sepShort", "colonHeading", "colonLast", "lenH1", "norm", "final", "candidates", "done"}
TypeOK == /\ toks \in Seq(TokKinds) /\ Len(toks) <= MaxLen
          /\ pg \in [h1 : H1s \cup {"none"}, h2 : H2s \cup {"none"}, mk : Markups \cup {"none"}]
          /\ ms.pc \in Pcs
          /\ ms.pc \notin {"grow", "done"} => (ms.lo >= 1 /\ ms.hi <= Len(Atoms(toks)) /\ ms.lo <= ms.hi + 1)

Done == ms.pc = "done"
Facts == PageFacts(toks, pg)

\* C15 at design level
InvMarkupWins     == Done => MarkupWins(Facts, ms.title)
InvNoInvention    == Done => NoInvention(Facts, ms.title)
InvExactWhenPlain == Done => ExactWhenPlain(Facts, ms.title)
\* the range bookkeeping of the machine is what it claims: the document title is a range of the
\* title or the h1 text at every step
InvRangeOrH1      == ms.pc \notin {"grow", "start", "done", "candidates"} =>
                        (ms.useH1 => Facts.h1p) /\ (~ms.useH1 => ms.lo >= 1 /\ ms.hi <= Len(Facts.A))
\* not part of the statement, but recorded: a non-empty <title> never gives an empty result
InvNonEmpty       == (Done /\ Len(toks) > 0) => ms.title # << >>
\* the rule-by-rule machine and the composite step agree
StepEqualsRun     == Done => ms = Run(Facts)

\* every title computation that starts reaches a title (checked by C15_live.cfg)
Terminates == (ms.pc = "start") ~> (ms.pc = "done")

DumpCase == (Dump /\ Done) =>
               PrintT(<<"@@CASE", ToJson([p |-> [toks |-> toks, h1 |-> pg.h1, h2 |-> pg.h2, mk |-> pg.mk],
                                          br |-> ms.br])>>)
=============================================================================
