---------------------------- MODULE TextFilters ----------------------------
(***************************************************************************)
(* The text-filter pipeline (internal/extractor/article.go: fifteen        *)
(* boilerpipe-style filters over the list of text blocks) at the level of  *)
(* STRUCTURE: what any filter may do to the block list, whatever its       *)
(* heuristics decide.                                                      *)
(*                                                                         *)
(* A block is [texts |-> offsets of its Text elements, c |-> content?].    *)
(* The pipeline starts from one block per group of Text elements, in       *)
(* document order, nothing marked as content.  A filter may                *)
(*    Merge(i)      fuse block i with its right neighbour (MergeNext: the  *)
(*                  texts are appended, the flags or-ed),                  *)
(*    SetFlag(i,v)  change the content flag of a block,                    *)
(*    Drop(i)       remove a block that is not content (BoilerplateBlock). *)
(* No filter splits a block, reorders blocks, or puts a Text element into  *)
(* two blocks - which is why a simple paragraph (one group of text nodes,  *)
(* one initial block) ends up with ONE flag (C03), and why the rendered    *)
(* text keeps document order (C02).  ApplyToModel finally copies the flag  *)
(* of every content block to its Text elements.                            *)
(*                                                                         *)
(* TLC (spec/gen/MC_TextFilters): for every initial list of the bound and  *)
(* every sequence of filter steps, Refines(initial, current) holds, and    *)
(* two texts that start in one block never end up with different flags.    *)
(* The trace specification checks every recorded filter step of a real run *)
(* against Refines (spec/trace/DocTrace.tla, action Blocks).               *)
(***************************************************************************)
EXTENDS TextBlocks

\* ---- the machine ---------------------------------------------------------------
VARIABLES init, cur
vars == <<init, cur>>

Merge(i) == /\ i < Len(cur)
            /\ cur' = SubSeq(cur, 1, i - 1)
                      \o <<[texts |-> cur[i].texts \o cur[i + 1].texts, c |-> cur[i].c \/ cur[i + 1].c]>>
                      \o SubSeq(cur, i + 2, Len(cur))
            /\ UNCHANGED init
SetFlag(i, v) == cur' = [cur EXCEPT ![i].c = v] /\ UNCHANGED init
Drop(i) == /\ ~cur[i].c
           /\ cur' = SubSeq(cur, 1, i - 1) \o SubSeq(cur, i + 1, Len(cur))
           /\ UNCHANGED init

Next == \E i \in 1..Len(cur) : Merge(i) \/ Drop(i) \/ \E v \in BOOLEAN : SetFlag(i, v)

\* ---- what TLC checks ---------------------------------------------------------------
NeverSplit == Refines(init, cur)
\* two texts of one initial block get the same flag at any time (C03 at the level of blocks)
OneFlagPerInitialBlock ==
    \A i \in 1..Len(init) : \A x, y \in 1..Len(init[i].texts) :
        TextFlag(cur, init[i].texts[x]) = TextFlag(cur, init[i].texts[y])
=============================================================================
