------------------------------ MODULE Unlikely ------------------------------
(***************************************************************************)
(* Property C20 at design level: the two conversion passes of              *)
(* ExtractContent over a page made of MAIN blocks and MARKED subtrees      *)
(* (class/id/role say sidebar, footer, menu, ...).                         *)
(*                                                                         *)
(*   pass 1 converts the page skipping marked subtrees;                    *)
(*   if it yields fewer than Threshold words, pass 2 converts a fresh      *)
(*   clone of the UNTOUCHED page without skipping.                         *)
(*                                                                         *)
(* A conversion is abstracted to the sequence of blocks it visits; the     *)
(* word count of a result is the sum of the words of its blocks (marked    *)
(* subtrees are content-like here, so that falling back visibly includes   *)
(* them).  The two metamorphic relations of the property are invariants:   *)
(*   enough remains  => result(P) = result(Delete(P))                      *)
(*   otherwise       => result(P) = result(Neutral(P))                     *)
(* The toggles reproduce the classic ways to break it.                     *)
(***************************************************************************)
EXTENDS Integers, Sequences, FiniteSets, TLC, Json

CONSTANTS MainSizes, MarkSizes, Wheres, Hows, MaxMarks, Threshold,
          SecondPassKeepsFlag,   \* defect toggle: pass 2 still skips
          CompareLessEq,         \* defect toggle: <= instead of <
          Dump

Block(kind, words, where, how) == [kind |-> kind, words |-> words, where |-> where, how |-> how]

\* a page: one main block and up to MaxMarks marked subtrees around/inside it
Pages == {<<Block("main", w, "main", "none")>> : w \in MainSizes}
         \cup {<<Block("main", w, "main", "none"), Block("marked", m, wh, h)>> :
                  w \in MainSizes, m \in MarkSizes, wh \in Wheres, h \in Hows}
         \cup (IF MaxMarks >= 2
               THEN {<<Block("main", w, "main", "none"), Block("marked", m, wh, h), Block("marked", m2, wh2, h2)>> :
                        w \in MainSizes, m \in MarkSizes, wh \in Wheres, h \in Hows,
                        m2 \in MarkSizes, wh2 \in Wheres, h2 \in Hows}
               ELSE {})

Conv(page, skip) == SelectSeq(page, LAMBDA b : ~(skip /\ b.kind = "marked"))
RECURSIVE Words(_)
Words(bs) == IF bs = <<>> THEN 0 ELSE Head(bs).words + Words(Tail(bs))

Delete(page)  == SelectSeq(page, LAMBDA b : b.kind # "marked")
Neutral(page) == [i \in 1..Len(page) |-> [page[i] EXCEPT !.kind = "main"]]
\* results are compared up to the marker itself
Strip(bs) == [i \in 1..Len(bs) |-> [words |-> bs[i].words, where |-> bs[i].where]]

Below(w) == IF CompareLessEq THEN w <= Threshold ELSE w < Threshold

\* the full pipeline as a function (used for Delete(P) and Neutral(P))
Distil(page) == LET r1 == Conv(page, TRUE)
                IN  IF Words(r1) < Threshold THEN Conv(page, FALSE) ELSE r1

VARIABLES page, pc, res, wc1
vars == <<page, pc, res, wc1>>

Init == page \in Pages /\ pc = "start" /\ res = <<>> /\ wc1 = -1

Pass1 == /\ pc = "start"
         /\ res' = Conv(page, TRUE) /\ wc1' = Words(Conv(page, TRUE))
         /\ pc' = "decide" /\ UNCHANGED page

Decide == /\ pc = "decide"
          /\ pc' = IF Below(wc1) THEN "pass2" ELSE "done"
          /\ UNCHANGED <<page, res, wc1>>

Pass2 == /\ pc = "pass2"
         /\ res' = Conv(page, SecondPassKeepsFlag)
         /\ pc' = "done" /\ UNCHANGED <<page, wc1>>

Next == Pass1 \/ Decide \/ Pass2
Spec == Init /\ [][Next]_vars /\ WF_vars(Next)

EnoughRemains == Words(Distil(Delete(page))) >= Threshold

PrunedWhenEnoughRemains ==
    pc = "done" /\ EnoughRemains => Strip(res) = Strip(Distil(Delete(page)))
MarkersIgnoredOtherwise ==
    pc = "done" /\ ~EnoughRemains => Strip(res) = Strip(Distil(Neutral(page)))
Terminates == <>(pc = "done")

DumpCase == (Dump /\ pc = "done") =>
    PrintT(<<"@@CASE", ToJson([p |-> [main |-> page[1].words,
                                       marks |-> SubSeq(page, 2, Len(page)),
                                       expect |-> IF EnoughRemains THEN "D" ELSE "R"]])>>)
=============================================================================
