------------------------------ MODULE RenderMC ------------------------------
(***************************************************************************)
(* Design-level check of Render.tla: for EVERY abstract document of the    *)
(* bound (DocGen), the element list of Convert!Run, and EVERY assignment   *)
(* of content flags to its text and media elements (the flags of the tag   *)
(* pairs are what DocFilters!Nested makes of them), the rendered sequence  *)
(* is balanced, holds each content text node once and in document order,   *)
(* holds nothing else, and shows every text node under the chain of list / *)
(* quote / pre elements it has in the source.                              *)
(***************************************************************************)
EXTENDS DocGen, Render

DF == INSTANCE DocFilters

VARIABLES picked, flags
mvars == <<doc, picked, flags>>

Elems == Run(doc, TRUE).elems

\* the element list in the vocabulary of DocFilters, with the chosen flags on the non-tag elements
AsDF(es, f) ==
    [i \in 1..Len(es) |->
        IF es[i].t = "tag" THEN [k |-> "tag", c |-> FALSE, name |-> es[i].k, start |-> es[i].start]
        ELSE IF es[i].t = "text" THEN [k |-> "text", c |-> f[i]]
        ELSE IF es[i].t = "table" THEN [k |-> "table", c |-> f[i]]
        ELSE [k |-> "image", c |-> f[i]]]
FinalFlags(es, f) == LET r == DF!Nested(AsDF(es, f)) IN [i \in 1..Len(es) |-> r[i].c]

MInit == Init /\ picked = FALSE /\ flags = << >>
MGrow == ~picked /\ Next /\ UNCHANGED <<picked, flags>>
MPick == /\ ~picked /\ Len(doc) >= 1
         /\ \E f \in [1..Len(Elems) -> BOOLEAN] :
               /\ \A i \in 1..Len(Elems) : Elems[i].t = "tag" => ~f[i]
               /\ flags' = FinalFlags(Elems, f)
         /\ picked' = TRUE /\ UNCHANGED doc
MNext == MGrow \/ MPick
MSpec == MInit /\ [][MNext]_mvars

Out == Render(doc, Elems, flags)

Inv_RenderBalanced    == picked => RenderBalanced(Out)
Inv_RenderOnceInOrder == picked => RenderOnceInOrder(Out)
Inv_RenderOnlyContent == picked => RenderOnlyContent(doc, Elems, flags, Out)
Inv_RenderChains      == picked => RenderChains(doc, Out)
=============================================================================
