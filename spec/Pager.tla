------------------------------- MODULE Pager -------------------------------
(***************************************************************************)
(* Pagers, the inputs of the two pagination finders, and what properties   *)
(* C16 and C17 say about the answer.                                       *)
(*                                                                         *)
(*  conventional pager (C17): pages 1..n rendered as links following one   *)
(*    URL pattern, the current page k as plain text; optionally Next/Prev  *)
(*    labelled links.  Expected answer: next = page k+1 (none if k = n),   *)
(*    prev = page k-1 (none if k = 1).                                     *)
(*  mixed pager (C16): a short sequence of anchors of arbitrary href kinds *)
(*    (relative, absolute, other case, other scheme, off-site, look-alike  *)
(*    hosts, javascript:, mailto:, empty, #, malformed, scheme-relative)   *)
(*    and label kinds (number, next word, prev word); whatever a finder    *)
(*    returns must be a real, same-site, fetchable link of the document.   *)
(*                                                                         *)
(* TLC enumerates both case spaces; the answer of the real finders is      *)
(* judged by PagerTrace with the predicates below.                         *)
(***************************************************************************)
EXTENDS Integers, Sequences, FiniteSets, TLC, Json

CONSTANTS MaxN, Families, Seps, Wraps, Decos, Labels,   \* conventional pagers
          HrefKinds, LabelKinds, MaxAnchors,            \* mixed pagers
          Mode, Dump

Algos == {"pagenumber", "prevnext"}

\* ---- C17: expected answer for a conventional pager ----------------------
ExpectedNext(n, k) == IF k < n THEN k + 1 ELSE 0     \* 0 = empty
ExpectedPrev(n, k) == IF k > 1 THEN k - 1 ELSE 0

\* o = observation: next/prev decoded to page indexes (0 = empty, -1 = some other URL)
C17_NextIsPageAfter(c, o)  == o.next = ExpectedNext(c.n, c.k)
C17_PrevIsPageBefore(c, o) == o.prev = ExpectedPrev(c.n, c.k)

\* ---- C16: whatever is returned is a real, same-site, fetchable link -----
\* u = facts about a returned URL string, computed lexically by the harness
GoodLink(u) == u.empty \/ (u.absolute /\ u.http /\ u.samehost /\ u.istarget)
C16_NextIsRealSameSiteLink(o) == GoodLink(o.nextfacts)
C16_PrevIsRealSameSiteLink(o) == GoodLink(o.prevfacts)

\* ---- enumeration ---------------------------------------------------------
VARIABLES c, done
vars == <<c, done>>

ConvCases == [kind : {"conv"}, n : 2..MaxN, k : 1..MaxN, fam : Families, sep : Seps, wrap : Wraps,
              deco : Decos, algo : Algos, labels : Labels]

Anchor == [href : HrefKinds, label : LabelKinds]

Init == /\ done = FALSE
        /\ IF Mode = "conv"
           THEN c \in {x \in ConvCases : x.k <= x.n
                          /\ (x.algo = "pagenumber" => x.labels = "none")
                          /\ (x.algo = "prevnext" => x.labels # "none")}
           ELSE c = [kind |-> "mixed", anchors |-> <<>>, cur |-> 0, algo |-> "pagenumber", page |-> "plain"]

\* mixed pagers grow anchor by anchor; `cur` = position of the plain current-page number (0: none)
Grow == /\ Mode = "mixed" /\ ~done
        /\ Len(c.anchors) < MaxAnchors
        /\ \E a \in Anchor : c' = [c EXCEPT !.anchors = Append(@, a)]
        /\ UNCHANGED done

Finish == /\ Mode = "mixed" /\ ~done /\ Len(c.anchors) >= 1
          /\ \E cur \in 0..(Len(c.anchors) + 1), al \in Algos, pg \in {"plain", "slash", "query"} :
                c' = [c EXCEPT !.cur = cur, !.algo = al, !.page = pg]
          /\ done' = TRUE

Next == Grow \/ Finish
Spec == Init /\ [][Next]_vars

TypeOK == done \in BOOLEAN

DumpCase == (Dump /\ (Mode = "conv" \/ done)) => PrintT(<<"@@CASE", ToJson([p |-> c])>>)
=============================================================================
