----------------------------- MODULE TableClass -----------------------------
(***************************************************************************)
(* The table classifier (internal/tableclass/classifier.go Classify) as a  *)
(* step machine over a decision list, next to the cascade as property C18  *)
(* documents it.                                                           *)
(*                                                                         *)
(*  - A table is described by a FEATURE record f (what a page author       *)
(*    controls).  Build(f) is the abstract table the concretiser           *)
(*    (harness/fam_table.go) generates for f: its rows as sequences of     *)
(*    cell kinds, plus the structures/attributes switched on by f.         *)
(*  - The machine evaluates the rules of the code in CODE order, one Step  *)
(*    per rule, on the quantities the CODE derives from the table          *)
(*    (row count = number of tr incl. those of nested tables, column       *)
(*    count = max number of td per tr, cells = direct td, header check =   *)
(*    the first header-like direct descendant decides ...).                *)
(*  - Documented(f) is the cascade exactly as the property states it,      *)
(*    written independently as nested IFs over the intended features.      *)
(*                                                                         *)
(* TLC checks for EVERY feature vector that the machine's verdict equals   *)
(* Documented(f) (rule order, thresholds), and dumps each vector as a      *)
(* case; the driver builds the real table, runs Apply, and the trace spec  *)
(* TableTrace checks the real classifier's verdict (hook event + table     *)
(* kept whole in the output) against Documented and - as fidelity - its    *)
(* reason against the machine's.                                           *)
(***************************************************************************)
EXTENDS Integers, Sequences, FiniteSets, TLC, Json

CONSTANTS RowVals, ColVals,      \* row / column counts to enumerate
          Roles, DescRoles, Headers, CellAttrs, Objects,   \* value sets (subsets of the All* sets below)
          Dump

AllRoles     == {"none", "presentation", "grid", "treegrid", "landmark", "other"}
AllDescRoles == {"none", "tableRole", "landmark"}
AllHeaders   == {"none", "caption", "thead", "tfoot", "colgroup", "col", "th", "rowth"}
AllCellAttrs == {"none", "abbr", "headers", "scope", "loneAbbr"}
AllObjects   == {"none", "embed", "object", "applet", "iframe"}
ASSUME /\ Roles \subseteq AllRoles /\ DescRoles \subseteq AllDescRoles /\ Headers \subseteq AllHeaders
       /\ CellAttrs \subseteq AllCellAttrs /\ Objects \subseteq AllObjects

Features == [editable : BOOLEAN, role : Roles, descRole : DescRoles, datatable0 : BOOLEAN,
             nested : BOOLEAN, rows : RowVals, cols : ColVals, short : BOOLEAN, latewide : BOOLEAN, span : BOOLEAN, emptyrow : BOOLEAN,
             header : Headers, cellAttr : CellAttrs, summary : BOOLEAN, object : Objects]

(***************************************************************************)
(* The abstract table generated for f.  Row r is a sequence of cell kinds. *)
(* header = "th" turns the first row into th cells; header = "rowth" puts  *)
(* a th cell in front of every row (key / value tables - rows and columns  *)
(* are counted in td cells, as the code does); short drops one cell        *)
(* from the last row; a nested table sits in the first td cell and brings  *)
(* one tr and one td of its own.                                           *)
(***************************************************************************)
ShortApplies(f) == f.short /\ f.cols > 1 /\ f.rows >= 3   \* another full row of td cells remains
\* latewide: every row but the last holds a single td cell, only the last row is f.cols cells wide (a long
\* one-column list that ends in a total row): the column count is the MAXIMUM over all rows
LateWide(f) == f.latewide /\ ~f.short /\ f.cols > 1 /\ f.rows >= 2
\* span: the first td cell of every row spans two columns (colspan="2"): the table is f.cols columns wide with one
\* td cell less in every row
Span(f) == f.span /\ ~f.short /\ ~f.latewide /\ f.cols > 2
\* emptyrow: the last row has no cell at all (<tr></tr>: the cells above span it) - it is a row all the same
EmptyRow(f) == f.emptyrow /\ ~f.short /\ ~f.latewide /\ ~f.span /\ ~f.nested /\ f.rows >= (IF f.header = "th" THEN 3 ELSE 2)   \* a row of td cells remains
RowOf(f, r) ==
    IF EmptyRow(f) /\ r = f.rows THEN << >> ELSE
    LET n == IF Span(f) THEN f.cols - 1
             ELSE IF LateWide(f) /\ r < f.rows THEN 1
             ELSE IF ShortApplies(f) /\ r = f.rows THEN f.cols - 1 ELSE f.cols
        k == IF f.header = "th" /\ r = 1 THEN "th" ELSE "td"
    IN  (IF f.header = "rowth" THEN <<"th">> ELSE << >>) \o [c \in 1..n |-> k]
Build(f) == [r \in 1..f.rows |-> RowOf(f, r)]

TdIn(row) == Cardinality({c \in 1..Len(row) : row[c] = "td"})
Max(S) == IF S = {} THEN 0 ELSE CHOOSE x \in S : \A y \in S : x >= y
FirstTdRow(f) == IF f.header = "th" THEN 2 ELSE 1    \* the row holding the decorated cells

\* ---- what the CODE derives ------------------------------------------------
CodeRows(f)  == f.rows + (IF f.nested /\ FirstTdRow(f) <= f.rows THEN 1 ELSE 0)      \* every tr, nested ones too
CodeCols(f)  == LET t == Build(f)
                IN  \* the nested table (one td of its own) sits in the LAST td cell of the table
                    Max({TdIn(t[r]) + (IF f.nested /\ r = f.rows /\ FirstTdRow(f) <= f.rows THEN 1 ELSE 0)
                                    + (IF Span(f) /\ TdIn(t[r]) > 0 THEN 1 ELSE 0) : r \in 1..f.rows})     \* colspan="2" counts twice
CodeCells(f) == LET t == Build(f) IN                                \* direct td only
                   LET RECURSIVE Sum(_)
                       Sum(r) == IF r = 0 THEN 0 ELSE TdIn(t[r]) + Sum(r - 1)
                   IN Sum(f.rows)
HasTd(f)     == CodeCells(f) > 0

\* structures that only exist if there is a td cell to carry them
Decorated(f, x) == HasTd(f) /\ x

\* the ordered decision list of the code: <<reason, condition, verdict>>
Rules(f) == <<
    <<"InsideEditableArea", f.editable, "layout">>,
    <<"RoleTable", f.role = "presentation", "layout">>,
    <<"RoleTable", f.role \in {"grid", "treegrid", "landmark"}, "data">>,
    <<"RoleDescendant", Decorated(f, f.descRole # "none"), "data">>,
    <<"Datatable0", f.datatable0, "layout">>,
    <<"NestedTable", Decorated(f, f.nested), "layout">>,
    <<"LessEq1Row", CodeRows(f) <= 1, "layout">>,
    <<"LessEq1Col", CodeCols(f) <= 1, "layout">>,
    <<"CaptionTheadTfootColgroupColTh", f.header # "none", "data">>,
    <<"AbbrHeadersScope", Decorated(f, f.cellAttr \in {"abbr", "headers", "scope"}), "data">>,
    <<"OnlyHasAbbr", Decorated(f, f.cellAttr = "loneAbbr"), "data">>,
    <<"Summary", f.summary, "data">>,
    <<"MoreEq5Cols", CodeCols(f) >= 5, "data">>,
    <<"MoreEq20Rows", CodeRows(f) >= 20, "data">>,
    <<"LessEq10Cells", CodeCells(f) <= 10, "layout">>,
    <<"EmbedObjectAppletIframe", Decorated(f, f.object # "none"), "layout">>,
    <<"Default", TRUE, "data">> >>

(***************************************************************************)
(* The cascade as property C18 states it.                                  *)
(***************************************************************************)
Documented(f) ==
    IF f.editable THEN "layout"                                              \* inside an editable area
    ELSE IF f.role = "presentation" THEN "layout"
    ELSE IF f.role \in {"grid", "treegrid", "landmark"} THEN "data"          \* ARIA role on the table
    ELSE IF HasTd(f) /\ f.descRole \in {"tableRole", "landmark"} THEN "data" \* ... or on a descendant
    ELSE IF f.datatable0 THEN "layout"
    ELSE IF HasTd(f) /\ f.nested THEN "layout"
    ELSE IF f.rows <= 1 \/ f.cols <= 1 THEN "layout"                         \* at most one row or one column
    ELSE IF f.header \in {"caption", "thead", "tfoot", "colgroup", "col", "th", "rowth"} THEN "data"
    ELSE IF f.cellAttr \in {"abbr", "headers", "scope", "loneAbbr"} THEN "data"
    ELSE IF f.summary THEN "data"
    ELSE IF f.cols >= 5 THEN "data"
    ELSE IF f.rows >= 20 THEN "data"
    ELSE IF (IF EmptyRow(f) THEN (f.rows - 1) * f.cols
             ELSE IF Span(f) THEN f.rows * (f.cols - 1)
             ELSE IF LateWide(f) THEN f.rows - 1 + f.cols ELSE f.rows * f.cols - (IF ShortApplies(f) THEN 1 ELSE 0)) <= 10
         THEN "layout"                                                        \* at most 10 cells
    ELSE IF f.object # "none" THEN "layout"
    ELSE "data"

\* ---- the step machine ---------------------------------------------------
VARIABLES f, i, verdict, reason
vars == <<f, i, verdict, reason>>

\* The vector is chosen in two steps (ancestor/attribute features first, structure
\* second) only so that TLC's workers share the enumeration; i = 0 marks "not chosen yet".
Row0 == CHOOSE r \in RowVals : TRUE
Col0 == CHOOSE c \in ColVals : TRUE
Init == /\ f \in [editable : BOOLEAN, role : Roles, descRole : DescRoles, datatable0 : BOOLEAN,
                   nested : BOOLEAN, rows : {Row0}, cols : {Col0}, short : {FALSE}, latewide : {FALSE}, span : {FALSE}, emptyrow : {FALSE},
                   header : {"none"}, cellAttr : {"none"}, summary : BOOLEAN, object : {"none"}]
        /\ i = 0 /\ verdict = "none" /\ reason = "none"

Pick == /\ i = 0
        /\ \E r \in RowVals, c \in ColVals, sh \in BOOLEAN, lw \in BOOLEAN, sp \in BOOLEAN, er \in BOOLEAN, h \in Headers, a \in CellAttrs, o \in Objects :
              /\ (er => ~sh /\ ~lw /\ ~sp /\ r \in {2, 20} /\ c = 2)   \* a row without cells only matters next to the row thresholds
              /\ ~(sh /\ lw) /\ (lw => c > 1 /\ r >= 20)       \* the late wide row only matters for long tables
              /\ (sp => ~sh /\ ~lw /\ c = 4 /\ r = 2)           \* spanning cells only matter next to the column threshold
              /\ f' = [f EXCEPT !.rows = r, !.cols = c, !.short = sh, !.latewide = lw, !.span = sp, !.emptyrow = er, !.header = h, !.cellAttr = a, !.object = o]
        /\ i' = 1
        /\ UNCHANGED <<verdict, reason>>

Step == /\ verdict = "none" /\ i >= 1
        /\ LET r == Rules(f)[i]
           IN  IF r[2] THEN verdict' = r[3] /\ reason' = r[1] /\ i' = i
               ELSE i' = i + 1 /\ UNCHANGED <<verdict, reason>>
        /\ f' = f

\* the expected reason / verdict in one go (also used by the trace spec)
RECURSIVE FirstRule(_, _)
FirstRule(g, k) == IF Rules(g)[k][2] THEN k ELSE FirstRule(g, k + 1)
ModelReason(g)  == Rules(g)[FirstRule(g, 1)][1]
ModelVerdict(g) == Rules(g)[FirstRule(g, 1)][3]

\* all rule evaluations of one classification composed into a single step
\* (used for the full feature product, where 17 states per vector are too many)
Decide == /\ verdict = "none" /\ i >= 1
          /\ i' = FirstRule(f, 1)
          /\ verdict' = ModelVerdict(f)
          /\ reason' = ModelReason(f)
          /\ f' = f

Next == Pick \/ Step
NextDecide == Pick \/ Decide
Spec == Init /\ [][Next]_vars /\ WF_vars(Next)

TypeOK == f \in Features /\ i \in 0..Len(Rules(f)) /\ verdict \in {"none", "layout", "data"}

\* C18 at design level: rule order and thresholds of the machine agree with the documented cascade
AgreesWithDocumented == verdict # "none" => verdict = Documented(f)

Terminates == <>(verdict # "none")

\* the composite step and the rule-by-rule machine agree
StepEqualsDecide == verdict # "none" => verdict = ModelVerdict(f) /\ reason = ModelReason(f)

DumpCase == (Dump /\ verdict # "none") =>
               PrintT(<<"@@CASE", ToJson([p |-> f, r |-> reason])>>)
=============================================================================
