------------------------------ MODULE DocProps ------------------------------
(***************************************************************************)
(* The observable properties of one call on an article-like page, written  *)
(* over the abstract observation of a call:                                *)
(*                                                                         *)
(*   s (src) - reference abstraction of the source tree handed to the      *)
(*          call: its word-bearing text nodes in document order, each      *)
(*          [w words, f flags, p simple-paragraph id, c nest chain,        *)
(*          t table id], and its media elements [m, kind, prev, node].     *)
(*          An abstract WORD is a pair (node, k), k \in 1..w.              *)
(*   o (obs) - projection of the Result: the text view and the HTML view   *)
(*          as sequences of RUNS [n, a, b] = words (n,a)..(n,b); n = 0 is  *)
(*          a word that is no source word.                                 *)
(*                                                                         *)
(* The same operators are used (a) as invariants of the design models      *)
(* (Convert/Output, over the model's own src/obs) and (b) by the trace     *)
(* specification DocTrace on observations of the real code.                *)
(***************************************************************************)
EXTENDS Integers, Sequences, FiniteSets

\* ---- flags of a source node ------------------------------------------
Bit(x, b)   == (x \div b) % 2 = 1
Never(s, n) == Bit(s.nodes[n].f, 1)    \* script/style/head/comment/hidden
Skip(s, n)  == Bit(s.nodes[n].f, 2)    \* form control, noscript, svg, object, embed, applet, iframe
Exem(s, n)  == Bit(s.nodes[n].f, 4)    \* under a table or figure (the stated exception for Skip)
InPh(s, n)  == Bit(s.nodes[n].f, 8)    \* inside a tweet blockquote (moved into an embed placeholder)

Known(s, r) == /\ r.n \in 1..Len(s.nodes)
               /\ 1 <= r.a /\ r.a <= r.b /\ r.b <= s.nodes[r.n].w

Before(r1, r2)  == r1.n < r2.n \/ (r1.n = r2.n /\ r1.b < r2.a)
Ordered(rs)     == \A i \in 1..(Len(rs) - 1) : Before(rs[i], rs[i+1])
AllKnown(s, rs) == \A i \in 1..Len(rs) : Known(s, rs[i])
AllShown(s, rs) == \A i \in 1..Len(rs) : Known(s, rs[i]) => ~Never(s, rs[i].n)

WordsOf(rs) == UNION {{<<rs[i].n, k>> : k \in rs[i].a..rs[i].b} : i \in 1..Len(rs)}
NodesIn(rs) == {rs[i].n : i \in 1..Len(rs)}

(***************************************************************************)
(* C02 - the output is an ordered excerpt of the visible source text.      *)
(* Strictly increasing word pairs imply that no word is emitted twice.     *)
(***************************************************************************)
C02_NothingInvented(s, o) == AllKnown(s, o.txt) /\ AllKnown(s, o.vis)
C02_OnlyVisibleText(s, o) == AllShown(s, o.txt) /\ AllShown(s, o.htm)
C02_OrderKeptOnce(s, o)   == Ordered(o.txt) /\ Ordered(o.vis)

(***************************************************************************)
(* C03 - a simple paragraph is all-or-nothing.                             *)
(***************************************************************************)
ParaWords(s, p) ==
    UNION {{<<n, k>> : k \in 1..s.nodes[n].w} :
           n \in {m \in 1..Len(s.nodes) : s.nodes[m].p = p /\ ~Never(s, m)}}

C03_ParaAllOrNothing(s, o) ==
    LET E == WordsOf(o.txt)
    IN  \A p \in 1..s.npara :
          LET W == ParaWords(s, p) IN (E \cap W = {}) \/ (W \subseteq E)

(***************************************************************************)
(* C04 - nothing non-rendered or non-reading leaks.                        *)
(***************************************************************************)
NoLeak(s, rs) ==
    \A i \in 1..Len(rs) :
       Known(s, rs[i]) => /\ ~Never(s, rs[i].n)
                          /\ Skip(s, rs[i].n) => Exem(s, rs[i].n)

C04_NoLeakInText(s, o) == NoLeak(s, o.txt)
\* hidden elements and comments of the output are part of the distilled HTML too
C04_NoLeakInHtml(s, o) == NoLeak(s, o.htm) /\ NoLeak(s, o.hid) /\ NoLeak(s, o.cmt)

(***************************************************************************)
(* C05 - the distilled HTML is inert.                                      *)
(***************************************************************************)
C05_NoScriptStyleElements(s, o) == o.census.script = 0 /\ o.census.style = 0
C05_NoHandlers(s, o)            == o.census.on = 0
C05_NoIdClassStyle(s, o)        == o.census.id = 0 /\ o.census.class = 0 /\ o.census.styleattr = 0
C05_NoForeignData(s, o)         == o.census.data = 0

(***************************************************************************)
(* C07 - nesting chains are preserved; retained data tables are whole.     *)
(***************************************************************************)
C07_ChainsPreserved(s, o) ==
    /\ \A i \in 1..Len(o.htm) : Known(s, o.htm[i]) => o.htm[i].c = s.nodes[o.htm[i].n].c
    \* the words of a tweet sit in their blockquote (and in the lists around it) inside the embed place holder too
    /\ \A i \in 1..Len(o.phc) : Known(s, o.phc[i]) => o.phc[i].c = s.nodes[o.phc[i].n].c

TableNodes(s, t) == {n \in 1..Len(s.nodes) : s.nodes[n].t = t /\ ~Never(s, n) /\ ~Skip(s, n) /\ ~InPh(s, n)}
C07_TableWhole(s, o) ==
    LET inTable == {i \in 1..Len(o.htm) : o.htm[i].t /\ Known(s, o.htm[i])}
        kept    == {s.nodes[o.htm[i].n].t : i \in inTable} \ {0}
        E       == WordsOf(o.htm)
    IN  /\ \A t \in kept : \A n \in TableNodes(s, t) : \A k \in 1..s.nodes[n].w : <<n, k>> \in E
        \* ... and with all of its rows and cells: every table of the output that can be traced to a source table
        \* holds as many rows and cells as a reader sees in that one (rows without cells count as well)
        /\ \A x \in 1..Len(o.outtables) :
               LET ot == o.outtables[x] IN
               (ot.t # 0 /\ ot.t <= Len(s.tables)) => (ot.rows = s.tables[ot.t].rows /\ ot.cells = s.tables[ot.t].cells)

(***************************************************************************)
(* C08 - media follow the preceding text block, modulo one lead image.     *)
(***************************************************************************)
TextKept(o, n)   == n # 0 /\ \E i \in 1..Len(o.txt) : o.txt[i].n = n
MediaExpected(s, o, i) == TextKept(o, s.media[i].prev)
MediaMismatch(s, o) == {i \in 1..Len(s.media) : o.mkept[i] # MediaExpected(s, o, i)}

C08_MediaFollowText(s, o) ==
    \A i \in MediaMismatch(s, o) : o.mkept[i] /\ s.media[i].kind \in {"img", "fig"}
C08_AtMostOneLead(s, o) == Cardinality(MediaMismatch(s, o)) <= 1

(***************************************************************************)
(* C09 - the views of one result agree.                                    *)
(***************************************************************************)
RECURSIVE SubSeqFrom(_, _, _, _)
SubSeqFrom(xs, i, ys, j) ==
    IF i > Len(xs) THEN TRUE
    ELSE IF j > Len(ys) THEN FALSE
    ELSE IF xs[i] = ys[j] THEN SubSeqFrom(xs, i + 1, ys, j + 1)
    ELSE SubSeqFrom(xs, i, ys, j + 1)
IsSubSeq(xs, ys) == SubSeqFrom(xs, 1, ys, 1)

\* runs are canonical (maximal), so equal word sequences have equal run sequences
\* ... and the words end in the same places: txtj / visj list the source words after which a word goes on without a blank
C09_TextEqualsHtml(s, o)   == o.txt = o.vis /\ o.txtj = o.visj
C09_ImagesFromHtml(s, o)   == IsSubSeq(o.ci, o.domimg)
C09_WordCount(s, o)        == (o.onlytxt /\ o.ntitle = 0) => o.wc = o.txtwc

\* the same agreement with embed placeholders left out of the HTML reading
\* (used only to CLASSIFY a C09_TextEqualsHtml failure, see DocTrace!Class)
TextEqualsHtmlOutsidePlaceholders(s, o) == o.txt = o.vnp
=============================================================================
