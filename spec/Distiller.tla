------------------------------ MODULE Distiller ------------------------------
(***************************************************************************)
(* One call of the distiller (distiller.go Apply + internal/extractor/     *)
(* content.go ExtractContent) as a state machine over its pipeline phases. *)
(*                                                                         *)
(*   idle -Invoke-> called -RootCheck-> rooted | failed                    *)
(*        -Pass(1)-> pass1 -[wc1 < 500] Pass(2)-> pass2                    *)
(*        -DocFilter(Relevant) -DocFilter(LeadImage) -DocFilter(Nested)->  *)
(*        -Render-> rendered -[~skip /\ url] Paginate-> paginated          *)
(*        -Return-> returned                                               *)
(*                                                                         *)
(* What each phase computes from the document is abstracted by            *)
(* uninterpreted choices (the word count of a pass, the rendered views);   *)
(* what the properties constrain is explicit: which phases run, in which   *)
(* order, with which flags, what they may write (footprints), and which    *)
(* result fields depend on which inputs.                                   *)
(*                                                                         *)
(* The guards (the Can... operators) are shared with the trace specification CallsTrace,   *)
(* which replays hook events of real calls through the same actions.       *)
(***************************************************************************)
EXTENDS Integers, Sequences, FiniteSets, TLC

CONSTANTS WcVals,          \* possible word counts of a pass (abstract)
          Threshold        \* 500 in the code (documentCharThreshold)

RootKinds == {"document", "emptyDocument", "element", "detachedElement", "text", "comment", "doctype"}
\* does the root hand an element to the pipeline?
HasElement(r) == r \in {"document", "element", "detachedElement"}

Algos == {"prevnext", "pagenumber"}
Opts  == [nil : BOOLEAN, log : 0..15, url : BOOLEAN, skip : BOOLEAN, algo : Algos]
\* a nil *Options means: no log flags, no URL, pagination not skipped, default algorithm
Eff(o) == IF o.nil THEN [nil |-> TRUE, log |-> 0, url |-> FALSE, skip |-> FALSE, algo |-> "prevnext"] ELSE o

FilterOrder == <<"RelevantElements", "LeadImage", "NestedElementRetainer">>

VARIABLES pc,        \* phase
          root,      \* kind of the root handed in
          opts,      \* options handed in
          passes,    \* number of conversion passes done (0..2)
          flags,     \* flags of the last pass: TRUE = skip unlikely candidates
          wc1, wc,   \* word count of pass 1 / of the last pass
          nfilt,     \* number of document filters run
          paginated, \* did the pagination phase run
          result,    \* abstract result [err, wc, url, pagination]
          callerWrites \* set of caller-owned objects written so far (must stay empty)
vars == <<pc, root, opts, passes, flags, wc1, wc, nfilt, paginated, result, callerWrites>>

NoResult == [err |-> FALSE, wc |-> -1, url |-> FALSE, pagination |-> FALSE]

Init == /\ pc = "idle" /\ root \in RootKinds /\ opts \in Opts
        /\ passes = 0 /\ flags = FALSE /\ wc1 = -1 /\ wc = -1 /\ nfilt = 0 /\ paginated = FALSE
        /\ result = NoResult /\ callerWrites = {}

\* ---- guards (also used by the trace specification) -------------------------
CanRootCheck(p)            == p = "called"
CanPass1(p)                == p = "rooted"
CanPass2(p, n, w1)         == p = "pass" /\ n = 1 /\ w1 < Threshold
CanFilter(p, n, w1, k)     == p = "pass" /\ (n = 2 \/ (n = 1 /\ w1 >= Threshold)) /\ k < 3
CanRender(p, k)            == p = "pass" /\ k = 3
CanPaginate(p, o)          == p = "rendered" /\ ~Eff(o).skip /\ Eff(o).url
CanReturn(p, o, pg)        == (p = "rendered" /\ (pg \/ Eff(o).skip \/ ~Eff(o).url)) \/ p = "failed"

Invoke == pc = "idle" /\ pc' = "called"
          /\ UNCHANGED <<root, opts, passes, flags, wc1, wc, nfilt, paginated, result, callerWrites>>

RootCheck == /\ CanRootCheck(pc)
             /\ pc' = IF HasElement(root) THEN "rooted" ELSE "failed"
             /\ UNCHANGED <<root, opts, passes, flags, wc1, wc, nfilt, paginated, result, callerWrites>>

Pass1 == /\ CanPass1(pc)
         /\ \E w \in WcVals : wc1' = w /\ wc' = w
         /\ passes' = 1 /\ flags' = TRUE /\ pc' = "pass"
         /\ UNCHANGED <<root, opts, nfilt, paginated, result, callerWrites>>

\* the second pass converts a FRESH clone of the untouched tree, without the skip flag
Pass2 == /\ CanPass2(pc, passes, wc1)
         /\ \E w \in WcVals : w >= wc1 /\ wc' = w     \* dropping the flag never loses words
         /\ passes' = 2 /\ flags' = FALSE
         /\ UNCHANGED <<pc, root, opts, wc1, nfilt, paginated, result, callerWrites>>

DocFilter == /\ CanFilter(pc, passes, wc1, nfilt)
             /\ nfilt' = nfilt + 1
             /\ UNCHANGED <<pc, root, opts, passes, flags, wc1, wc, paginated, result, callerWrites>>

Render == /\ CanRender(pc, nfilt)
          /\ pc' = "rendered"
          /\ result' = [err |-> FALSE, wc |-> wc, url |-> Eff(opts).url, pagination |-> FALSE]
          /\ UNCHANGED <<root, opts, passes, flags, wc1, wc, nfilt, paginated, callerWrites>>

Paginate == /\ CanPaginate(pc, opts) /\ ~paginated
            /\ paginated' = TRUE
            /\ \E found \in BOOLEAN : result' = [result EXCEPT !.pagination = found]
            /\ UNCHANGED <<pc, root, opts, passes, flags, wc1, wc, nfilt, callerWrites>>

Return == /\ CanReturn(pc, opts, paginated)
          /\ pc' = "returned"
          /\ result' = IF pc = "failed" THEN [NoResult EXCEPT !.err = TRUE] ELSE result
          /\ UNCHANGED <<root, opts, passes, flags, wc1, wc, nfilt, paginated, callerWrites>>

Next == Invoke \/ RootCheck \/ Pass1 \/ Pass2 \/ DocFilter \/ Render \/ Paginate \/ Return
Spec == Init /\ [][Next]_vars /\ WF_vars(Next)

\* ---- properties ------------------------------------------------------------
TypeOK == pc \in {"idle", "called", "rooted", "failed", "pass", "rendered", "returned"} /\ passes \in 0..2 /\ nfilt \in 0..3

\* C01: every call terminates, with an error or a result
Terminates     == <>(pc = "returned")
WellFormed     == pc = "returned" => (result.err <=> ~HasElement(root))

\* C20: the second pass runs exactly when the first yields fewer than Threshold words, without the flag
TwoPassRule    == pc \in {"rendered", "returned"} /\ ~result.err =>
                     /\ (passes = 2) <=> (wc1 < Threshold)
                     /\ flags = (passes = 1)
                     /\ result.wc = wc

\* C13: pagination runs iff it is wanted and possible; Result.URL mirrors the option
OptionsOnlyWhatTheySay ==
    pc = "returned" /\ ~result.err =>
       /\ paginated <=> (~Eff(opts).skip /\ Eff(opts).url)
       /\ result.pagination => paginated
       /\ result.url = Eff(opts).url

\* C10: no action writes a caller-owned object
CallerUntouched == callerWrites = {}
=============================================================================
