------------------------------- MODULE Convert -------------------------------
(***************************************************************************)
(* The conversion of a DOM into the flat element list that the rest of the *)
(* pipeline works on: the pre-order walk of internal/domutil/walker.go,    *)
(* the per-element decisions of internal/converter/dom-converter.go        *)
(* (visitElementNodeHandler, one case per early return), the document      *)
(* builder of internal/webdoc/document-builder.go (tag level, pending      *)
(* flush, group number, action stack) and the text builder of              *)
(* internal/webdoc/text-builder.go (the window of text nodes handed to the *)
(* next Text element).                                                     *)
(*                                                                         *)
(* A state s of the machine is a record; StepF(doc, skip, s) is the        *)
(* deterministic next-state function (one builder call of the real code    *)
(* per step, so hook events can be replayed against it); Run iterates it.  *)
(*                                                                         *)
(* The defect toggles reproduce defects that existed in the code:          *)
(*   WalkerCapturesNext = FALSE : the walk loses the following siblings    *)
(*                                after a rewritten javascript: anchor     *)
(***************************************************************************)
EXTENDS Dom, SequencesExt, TLC

CONSTANTS WalkerCapturesNext,   \* FALSE reproduces the lost-siblings defect (fixed in f54c457)
          EmptyBlockFlushes,    \* FALSE reproduces the silently skipped empty block (fixed later, see known_findings.json)
          EmptyLooksAtChildren  \* FALSE reproduces the block taken for empty because it has as many child elements as there
                                \* are line breaks anywhere below it: <div><a><img><br></a></div> lost its image (fixed in 6fa6256)

\* kinds this model covers (layout tables need the tbody/tr/td wrappers and are left to the black-box checks)
ModelKinds == AllKinds \ {"LT"}

BlockKinds2   == {"P", "DIV", "H", "UL", "OL", "LI", "BQ", "PRE", "MRK", "BODY"}
MediaLeaf     == {"IMG", "VID", "EMB", "FIG", "FIGL", "TW"}
SilentKinds   == {"HID", "HIN", "SKS", "SHR"}       \* SHR: class "sharing" / "socialArea", data-component "share"
AnchorKinds   == {"A", "AJ"}
TextLike      == {"T", "t", "W"}

InLi(doc, i)  == UnderKind(doc, i, {"LI"})

\* the element action of StartNode (internal/webdoc/element-action.go)
Act(doc, i) ==
    LET k == doc[i].k
        blk == k \in BlockKinds2 /\ ~InLi(doc, i)
    IN  [flush |-> blk, lvl |-> blk \/ k \in AnchorKinds, anchor |-> k \in AnchorKinds, node |-> i]

HasWordBelow(doc, i) == \E j \in (i+1)..SubtreeEnd(doc, i) : HasWords(doc[j].k) \/ doc[j].k = "LNK"
\* isElementWithoutContent (div, section, header, h1..h6, and since 18a8bea p and the other block-level tags): no text below, and
\* every child element is a line break.  (Before 6fa6256 the code compared the number of CHILD elements with the
\* number of DESCENDANT br/hr elements.)
ElemChildren(doc, i) == {j \in Children(doc, i) : doc[j].k \notin TextKinds \cup {"CMT"}}
BrBelow(doc, i)      == {j \in (i+1)..SubtreeEnd(doc, i) : doc[j].k = "BR"}
WithoutContent(doc, i) ==
    /\ doc[i].k \in {"DIV", "H", "MRK", "P"}
    /\ ~HasWordBelow(doc, i)
    /\ IF EmptyLooksAtChildren THEN \A j \in ElemChildren(doc, i) : doc[j].k = "BR"
       ELSE ElemChildren(doc, i) = {} \/ Cardinality(ElemChildren(doc, i)) = Cardinality(BrBelow(doc, i))

\* ---- builder state ---------------------------------------------------------
\* log: the builder calls made so far, one record per call (what the verif hooks of
\* internal/webdoc/document-builder.go record); only used for the fidelity replay
S0 == [cur |-> 1, open |-> <<>>, acts |-> <<>>, lvl |-> 0, flush |-> FALSE, group |-> 0,
       buf |-> <<>>, elems |-> <<>>, done |-> FALSE, log |-> <<>>]

Ev(e, k, n) == [e |-> e, k |-> k, n |-> n]
Logged(s, ev) == [s EXCEPT !.log = Append(@, ev)]

WordNode(doc, i) == HasWords(doc[i].k) \/ doc[i].k = "LNK"

\* flushBlock(group): emit a Text element iff the window holds a word-bearing node
FirstWord(doc, buf) == buf[CHOOSE n \in 1..Len(buf) : WordNode(doc, buf[n]) /\ \A m \in 1..(n-1) : ~WordNode(doc, buf[m])]
FlushBlock(doc, s, g) ==
    IF \E n \in 1..Len(s.buf) : WordNode(doc, s.buf[n])
    THEN [Logged(s, Ev("flush", "", FirstWord(doc, s.buf))) EXCEPT !.elems = Append(@, [t |-> "text", nodes |-> s.buf, g |-> g]), !.buf = <<>>]
    ELSE [s EXCEPT !.buf = <<>>]

\* AddTextNode / AddLineBreak
AddText(doc, s, i) ==
    LET s0 == Logged(s, Ev(IF doc[i].k = "BR" THEN "br" ELSE "text", "", IF WordNode(doc, i) THEN i ELSE 0))
        s1 == IF s0.flush THEN [FlushBlock(doc, s0, s0.group) EXCEPT !.group = s0.group + 1, !.flush = FALSE] ELSE s0
    IN  [s1 EXCEPT !.buf = Append(@, i)]

StartNode(doc, s0, i) ==
    LET a == Act(doc, i)
        s == Logged(s0, Ev("start", doc[i].k, 0))
    IN  [s EXCEPT !.open = Append(@, i), !.acts = Append(@, a),
                  !.lvl = @ + (IF a.lvl THEN 1 ELSE 0), !.flush = @ \/ a.flush]

EndNode(doc, s0) ==
    LET a  == Last(s0.acts)
        s  == Logged(s0, Ev("end", "", 0))
        s1 == IF s.flush \/ a.flush THEN [FlushBlock(doc, s, s.group) EXCEPT !.group = s.group + 1] ELSE s
    IN  [s1 EXCEPT !.open = Front(@), !.acts = Front(@), !.lvl = @ - (IF a.lvl THEN 1 ELSE 0)]

Emit(doc, s0, e) ==
    LET s == Logged(s0, Ev(e.t, e.k, 0))
    IN  [FlushBlock(doc, s, s.group) EXCEPT !.elems = Append(@, e)]

Jump(doc, s, i) == SubtreeEnd(doc, i) + 1

\* where the walk continues after the visitor detached the visited node i
AfterRewrite(doc, i) ==
    IF WalkerCapturesNext THEN SubtreeEnd(doc, i) + 1
    ELSE LET p == Parent(doc, i) IN IF p = 0 THEN Len(doc) + 1 ELSE SubtreeEnd(doc, p) + 1

\* ---- one visit (visitNodeHandler / visitElementNodeHandler) ----------------
Visit(doc, skip, s) ==
    LET i == s.cur
        k == doc[i].k
        kids == Children(doc, i)
    IN
    CASE k \in TextLike \/ k = "BR"     -> [AddText(doc, s, i) EXCEPT !.cur = i + 1]
      [] k = "CMT"                      -> [s EXCEPT !.cur = i + 1]
      [] k \in SilentKinds              -> [s EXCEPT !.cur = Jump(doc, s, i)]
      [] k = "MRK" /\ skip              -> [s EXCEPT !.cur = Jump(doc, s, i)]
      [] WithoutContent(doc, i)         -> [(IF EmptyBlockFlushes THEN Logged(s, Ev("skip", "", 0)) ELSE s)
                                               EXCEPT !.flush = @ \/ EmptyBlockFlushes, !.cur = Jump(doc, s, i)]
      [] k \in MediaLeaf                -> [Emit(doc, s, [t |-> "media", k |-> k, node |-> i]) EXCEPT !.cur = Jump(doc, s, i)]
      [] k = "DT"                       -> [Emit(doc, s, [t |-> "table", k |-> k, node |-> i]) EXCEPT !.cur = Jump(doc, s, i)]
      [] k = "SKF"                      -> [Logged(s, Ev("skip", "", 0)) EXCEPT !.flush = TRUE, !.cur = Jump(doc, s, i)]
      [] k = "LNK"                      -> \* a block holding one linked text: enter, text, leave
           LET s1 == [s EXCEPT !.flush = @ \/ ~InLi(doc, i)]
               s2 == AddText(doc, s1, i)
               s3 == IF s2.flush \/ ~InLi(doc, i) THEN [FlushBlock(doc, s2, s2.group) EXCEPT !.group = s2.group + 1] ELSE s2
           IN  [s3 EXCEPT !.cur = i + 1]
      [] k = "AJ" /\ Cardinality(kids) = 1 /\ (\A j \in kids : doc[j].k \in TextLike)
                                        -> \* the anchor is replaced by its text node
           LET j == CHOOSE x \in kids : TRUE
           IN  [AddText(doc, s, j) EXCEPT !.cur = AfterRewrite(doc, i)]
      [] k \in NestKinds                -> [StartNode(doc, Emit(doc, s, [t |-> "tag", k |-> k, start |-> TRUE, node |-> i]), i) EXCEPT !.cur = i + 1]
      [] OTHER                          -> [StartNode(doc, s, i) EXCEPT !.cur = i + 1]

\* leaving the innermost entered element (exitNodeHandler)
Leave(doc, s) ==
    LET j == Last(s.open)
        s1 == IF doc[j].k \in NestKinds THEN Emit(doc, s, [t |-> "tag", k |-> doc[j].k, start |-> FALSE, node |-> j]) ELSE s
    IN  EndNode(doc, s1)

MustLeave(doc, s) == s.open # <<>> /\ SubtreeEnd(doc, Last(s.open)) < s.cur

StepF(doc, skip, s) ==
    IF MustLeave(doc, s) THEN Leave(doc, s)
    ELSE IF s.cur > Len(doc) THEN [FlushBlock(doc, s, s.group) EXCEPT !.done = TRUE]     \* Build()
    ELSE Visit(doc, skip, s)

RECURSIVE RunFrom(_, _, _)
RunFrom(doc, skip, s) == IF s.done THEN s ELSE RunFrom(doc, skip, StepF(doc, skip, s))
Run(doc, skip) == RunFrom(doc, skip, S0)

\* ---- properties of a final element list --------------------------------------
TextElems(es) == SelectSeq(es, LAMBDA e : e.t = "text")
RECURSIVE Flat(_)
Flat(ss) == IF ss = <<>> THEN <<>> ELSE Head(ss) \o Flat(Tail(ss))
EmittedNodes(es) == Flat([n \in 1..Len(TextElems(es)) |-> TextElems(es)[n].nodes])
Increasing(q) == \A n \in 1..(Len(q) - 1) : q[n] < q[n+1]

\* C02: each text node lands in at most one Text element, in document order
TextInDocOrderOnce(doc, es) == Increasing(EmittedNodes(es))
\* C04: nothing under a hidden or skipped element, and no comment, is emitted
NoHiddenOrSkippedText(doc, es) ==
    \A n \in 1..Len(EmittedNodes(es)) :
       LET i == EmittedNodes(es)[n]
       IN  ~UnderKind(doc, i, SilentKinds \cup {"SKF"} \cup MediaLeaf \cup {"DT"}) /\ doc[i].k # "CMT"

\* C08: every picture, video, embed, figure and data table a reader sees is handed on as an element of its own
\* (whether it is kept is the document filters' business)
SeenMedia(doc) == {i \in 1..Len(doc) : doc[i].k \in MediaLeaf \cup {"DT"}
                                        /\ ~UnderKind(doc, i, SilentKinds \cup {"SKF", "MRK", "DT"} \cup MediaLeaf)}
MediaAllEmitted(doc, es) == \A i \in SeenMedia(doc) : \E n \in 1..Len(es) : es[n].t \in {"media", "table"} /\ es[n].node = i

\* C07: tags are balanced and every Text element sits under the nest chain of its source nodes
OpenTagsBefore(es, n) ==
    LET RECURSIVE f(_, _)
        f(m, st) == IF m = n THEN st
                    ELSE LET e == es[m] IN
                         IF e.t = "tag" THEN (IF e.start THEN f(m + 1, Append(st, e.k)) ELSE f(m + 1, IF st = <<>> THEN <<"UNDERFLOW">> ELSE Front(st)))
                         ELSE f(m + 1, st)
    IN  f(1, <<>>)
TagsBalanced(es) == OpenTagsBefore(es, Len(es) + 1) = <<>>
ChainsMirrorSource(doc, es) ==
    \A n \in 1..Len(es) : es[n].t = "text" =>
        \A m \in 1..Len(es[n].nodes) : OpenTagsBefore(es, n) = NestChain(doc, es[n].nodes[m])

\* C03: a simple paragraph is one group, and complete
SimpleKinds == TextLike \cup {"BR", "INL", "A", "AJ", "FONT"}
SimplePara(doc, p) == doc[p].k = "P" /\ \A j \in (p+1)..SubtreeEnd(doc, p) : doc[j].k \in SimpleKinds
ParaWordNodes(doc, p) == {j \in (p+1)..SubtreeEnd(doc, p) : HasWords(doc[j].k)}
SimpleParaWhole(doc, es) ==
    \A p \in 1..Len(doc) : SimplePara(doc, p) =>
        LET W == ParaWordNodes(doc, p)
            T == {n \in 1..Len(es) : es[n].t = "text" /\ \E m \in 1..Len(es[n].nodes) : es[n].nodes[m] \in W}
            E == {i \in W : \E n \in T : \E m \in 1..Len(es[n].nodes) : es[n].nodes[m] = i}
        IN  /\ E = {} \/ E = W                                  \* all or nothing reaches the element list
            /\ \A n1, n2 \in T : es[n1].g = es[n2].g             \* ... and in one group (one block, one flag)

\* ---- C20: the two conversion theorems -----------------------------------------
KeepIdx(doc) == SelectSeq([i \in 1..Len(doc) |-> i],
                          LAMBDA i : doc[i].k # "MRK" /\ ~UnderKind(doc, i, {"MRK"}))
Delete(doc)  == [n \in 1..Len(KeepIdx(doc)) |-> doc[KeepIdx(doc)[n]]]
Neutral(doc) == [i \in 1..Len(doc) |-> IF doc[i].k = "MRK" THEN [doc[i] EXCEPT !.k = "DIV"] ELSE doc[i]]
\* an element list up to group renumbering and node renumbering (map = original index of node n)
Shape(es, map) ==
    [n \in 1..Len(es) |->
        IF es[n].t = "text"
        THEN [t |-> "text", nodes |-> [m \in 1..Len(es[n].nodes) |-> map[es[n].nodes[m]]],
              sameGroupAsPrev |-> \E q \in 1..(n-1) : es[q].t = "text" /\ es[q].g = es[n].g]
        ELSE [t |-> es[n].t, k |-> es[n].k, node |-> map[es[n].node]]]
Ident(doc) == [i \in 1..Len(doc) |-> i]
\* Found by TLC on this model (EmptyBlockFlushes = FALSE) and confirmed on the real code: a wrapper
\* whose only content is a marked subtree is walked when the subtree is merely skipped, but was
\* dropped silently as "element without content" once the subtree is deleted - the text runs around
\* it then ended up in one block instead of two.  Since the repair an empty block requests a flush,
\* and the theorem holds without this exclusion (Inv_C20_SkipEqualsDeleteUnrestricted).
RECURSIVE EmptyWithoutMarks(_, _)
EmptyWithoutMarks(doc, p) ==
    /\ doc[p].k \in {"DIV", "H", "MRK", "P"}
    /\ \A j \in Children(doc, p) : doc[j].k \in {"MRK", "BR", "W", "CMT"} \/ EmptyWithoutMarks(doc, j)
WrapperBecomesEmpty(doc) ==
    \E p \in 1..Len(doc) : doc[p].k \in {"DIV", "H", "P"} /\ ~UnderKind(doc, p, {"MRK"})
                            /\ ~WithoutContent(doc, p) /\ EmptyWithoutMarks(doc, p)
SkipEqualsDelete(doc)   == Shape(Run(doc, TRUE).elems, Ident(doc)) = Shape(Run(Delete(doc), TRUE).elems, KeepIdx(doc))
NoSkipEqualsNeutral(doc) == Shape(Run(doc, FALSE).elems, Ident(doc)) = Shape(Run(Neutral(doc), TRUE).elems, Ident(doc))
=============================================================================
