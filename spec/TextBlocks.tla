----------------------------- MODULE TextBlocks -----------------------------
(***************************************************************************)
(* Operators over lists of text blocks [texts, c] shared by the design     *)
(* model of the text-filter pipeline (TextFilters.tla) and the trace       *)
(* specification that checks the recorded filter steps of real runs        *)
(* (DocTrace.tla, action Blocks).                                          *)
(***************************************************************************)
EXTENDS Integers, Sequences, FiniteSets

RECURSIVE Flat(_)
Flat(bs) == IF bs = << >> THEN << >> ELSE Head(bs).texts \o Flat(Tail(bs))
Increasing(q) == \A a, b \in 1..Len(q) : a < b => q[a] < q[b]

WellFormed(bs) == /\ \A i \in 1..Len(bs) : bs[i].texts # << >>
                  /\ Increasing(Flat(bs))                   \* every Text at most once, in document order

\* nothing was split and nothing was added: every block of b1 lies as a whole inside one block of b2 or is gone, and
\* b2 holds no other texts (blocks that were dropped in between do not keep their neighbours from being fused later)
TextsOf(b) == {b.texts[x] : x \in 1..Len(b.texts)}
Covers(b1, b2) ==
    /\ \A i \in 1..Len(b1) : \/ \A j \in 1..Len(b2) : TextsOf(b1[i]) \cap TextsOf(b2[j]) = {}
                              \/ \E k \in 1..Len(b2) : TextsOf(b1[i]) \subseteq TextsOf(b2[k])
    /\ \A m \in 1..Len(b2) : TextsOf(b2[m]) \subseteq UNION {TextsOf(b1[n]) : n \in 1..Len(b1)}
\* the blocks of b1 that are gone were not content
InB2(b2, t) == \E j \in 1..Len(b2) : \E x \in 1..Len(b2[j].texts) : b2[j].texts[x] = t
DroppedWereBoilerplate(b1, b2) == \A i \in 1..Len(b1) : ~InB2(b2, b1[i].texts[1]) => ~b1[i].c

Refines(b1, b2) == WellFormed(b2) /\ Covers(b1, b2)

\* ApplyToModel: the flag of Text element t
TextFlag(bs, t) == \E j \in 1..Len(bs) : bs[j].c /\ \E x \in 1..Len(bs[j].texts) : bs[j].texts[x] = t

=============================================================================
