------------------------------ MODULE PrevNext ------------------------------
(***************************************************************************)
(* The prev/next pagination finder (internal/pagination/prev-next.go       *)
(* FindOutlink): every anchor of the page is filtered, scored, and the     *)
(* first anchor with the highest score of at least 50 is returned.         *)
(*                                                                         *)
(* A link is abstracted to the FACTS the scorer reads - which of its       *)
(* vocabulary lists match the link text / class / id / href / ancestors,   *)
(* how the href relates to the page URL - plus the page it points to.      *)
(* Filter, Score and Choose are transcribed rule by rule.                  *)
(*                                                                         *)
(* Checked by TLC (spec/gen/MC_PrevNext.tla):                              *)
(*   LabelledLinkWins   on a conventional pager of pages 1..N with current *)
(*                      page k, numbered links and links labelled Next /   *)
(*                      Prev (neutral vocabulary elsewhere), the finder    *)
(*                      returns page k+1 as next and page k-1 as previous  *)
(*                      for every URL family, N, k and label set   (C17)   *)
(*   OnlyAdmitted       whatever is returned passed the same-site prefix   *)
(*                      test and is not the page itself             (C16)  *)
(*   ThresholdMatters   nothing below 50 is ever returned                  *)
(***************************************************************************)
EXTENDS Integers, Sequences, FiniteSets, TLC

CONSTANT DiffUsesWholeNumbers   \* TRUE: as repaired (63a5051); FALSE: the difference of two page numbers that share
                                \* their leading digits is lost (10 -> 11)

\* ---- a link ------------------------------------------------------------------------
\* target   page index it points to (0: somewhere else)
\* abs      href is an absolute URL after resolution;  prefix  starts with scheme://host/ of the page
\* digits   a digit follows the prefix;  same  "current" / "folder" / "no"
\* tlen     length of the link text;  extraText  text matches the extraneous list
\* beyond   a digit follows the folder URL (or the href is outside the folder)
\* infolder the folder URL is a prefix of the href
\* nextD/prevD  next / prev vocabulary in text+class+id;  nextT/prevT  in the text alone
\* pagD, firstLast, negD   pag* word / first|last / negative or extraneous word in text+class+id
\* parPos, parNeg   an ancestor with a pag* class or id / with a negative one (and no positive word)
\* hrefPag, hrefExtra   the href looks like paging / contains an extraneous word
\* tnum     the link text as a number (0: not a number)
\* pnum     the page number in the href where it first differs from the page URL (0: none)
LinkFields == {"target", "abs", "prefix", "digits", "same", "tlen", "extraText", "beyond", "infolder", "nextD", "prevD",
               "nextT", "prevT", "pagD", "firstLast", "negD", "parPos", "parNeg", "hrefPag", "hrefExtra", "tnum", "pnum"}

\* ---- getPageDiff --------------------------------------------------------------------
\* cur: the page number of the current URL at the first difference; the defect: when both numbers share their
\* leading digits only the differing tails were compared, and a tail "0" is not a valid number
SameLeading(a, b) == a >= 10 /\ b >= 10 /\ a \div 10 = b \div 10
DiffValid(cur, l) ==
    /\ cur > 0 /\ l.pnum > 0
    /\ DiffUsesWholeNumbers \/ ~SameLeading(cur, l.pnum) \/ (cur % 10 > 0 /\ l.pnum % 10 > 0)
Diff(cur, l) == l.pnum - cur

\* ---- filter: is the link a candidate at all? ------------------------------------------
Candidate(l, next) ==
    /\ l.abs /\ l.prefix
    /\ next => l.digits
    /\ l.same # "current" /\ ~(next /\ l.same = "folder")
    /\ l.tlen <= 25
    /\ ~l.extraText
    /\ next => l.beyond

\* ---- score ---------------------------------------------------------------------------------
B(c, v) == IF c THEN v ELSE 0
Score(l, next, cur) ==
      B(~l.infolder, -25)
    + B((next /\ l.nextD) \/ (~next /\ l.prevD), 50)
    + B(l.pagD, 25)
    + B(l.firstLast /\ ((next /\ ~l.nextT) \/ (~next /\ ~l.prevT)), -65)
    + B(l.negD, -50)
    + B((next /\ l.prevD) \/ (~next /\ l.nextD), -200)
    + B(l.parPos, 25) + B(l.parNeg, -25)
    + B(l.hrefPag, 25) + B(l.hrefExtra, -15)
    + B(l.tlen > 10, -l.tlen)
    + (IF l.tnum > 0 THEN (IF next /\ l.tnum = 1 THEN -10 ELSE (IF 10 - l.tnum > 0 THEN 10 - l.tnum ELSE 0)) ELSE 0)
    + B(DiffValid(cur, l) /\ ((next /\ Diff(cur, l) = 1) \/ (~next /\ Diff(cur, l) = -1)), 25)

\* ---- choice: the first candidate with the highest score >= 50 whose URL is not banned ------------
\* (a link with extraneous text bans its URL for every other anchor)
Banned(links, next) ==
    {links[i].target : i \in {j \in 1..Len(links) :
        /\ links[j].abs /\ links[j].prefix /\ (next => links[j].digits)
        /\ links[j].same # "current" /\ ~(next /\ links[j].same = "folder")
        /\ links[j].tlen <= 25 /\ links[j].extraText}}
Choose(links, next, cur) ==
    LET C == {i \in 1..Len(links) : Candidate(links[i], next) /\ links[i].target \notin Banned(links, next)
                                     /\ Score(links[i], next, cur) >= 50}
    IN  IF C = {} THEN 0
        ELSE LET best == CHOOSE i \in C : \A j \in C : Score(links[j], next, cur) < Score(links[i], next, cur)
                                                      \/ (Score(links[j], next, cur) = Score(links[i], next, cur) /\ i <= j)
             IN  best

\* ---- the conventional pagers of C17 as the scorer sees them ------------------------------------------
\* Per URL family the lexical facts of the generated links (harness/fam_pager.go convURL), per label set the
\* facts of the labelled links.  The binding (spec/trace/PagerTrace.tla) compares the score the real code
\* gave to every link of the pager with Score on these facts, so the table itself is validated too.
Fams   == {"query", "path", "pathmid", "pathmidext", "file", "datedfile", "pathslash"}
LabelSets == {"nextprev", "nextprevious", "raquo", "onlynext"}

\* facts of a link to page i of family f, seen from page k
\* /zqs/<i>/photos lies outside the folder /zqs/<k> of the current page - unless "<k>" is a string prefix of "<i>"
\* (the folder test is a plain string prefix test: /zqs/1 is a prefix of /zqs/10/photos)
StrPrefix(k, i) == k = i \/ (i >= 10 /\ i \div 10 = k)
InFolder(f, k, i) == IF f \in {"pathmid", "pathmidext"} THEN StrPrefix(k, i) ELSE TRUE
HrefPag(f)  == f = "query"                   \* ...?pg=<i> looks like paging; /view/<i>, view-<i>.html, _Part<i>.html do not
Base(f, k, i) == [target |-> i, abs |-> TRUE, prefix |-> TRUE, digits |-> TRUE, same |-> "no", tlen |-> 0, extraText |-> FALSE,
               beyond |-> TRUE, infolder |-> InFolder(f, k, i), nextD |-> FALSE, prevD |-> FALSE, nextT |-> FALSE, prevT |-> FALSE,
               pagD |-> FALSE, firstLast |-> FALSE, negD |-> FALSE, parPos |-> FALSE, parNeg |-> FALSE,
               hrefPag |-> HrefPag(f), hrefExtra |-> FALSE, tnum |-> 0, pnum |-> i]
NumLink(f, k, i)  == [Base(f, k, i) EXCEPT !.tlen = IF i < 10 THEN 1 ELSE 2, !.tnum = i]
NextLink(f, k, i, lab) == [Base(f, k, i) EXCEPT !.tlen = IF lab = "raquo" THEN 7 ELSE 4, !.nextD = TRUE, !.nextT = TRUE]
PrevLink(f, k, i, lab) == [Base(f, k, i) EXCEPT !.tlen = CASE lab = "nextprevious" -> 8 [] lab = "raquo" -> 7 [] OTHER -> 4,
                                          !.prevD = TRUE, !.prevT = TRUE]

\* the pager of page k of n: [Prev] 1 .. k-1 (k) k+1 .. n [Next]
ConvLinks(f, n, k, lab, numbered) ==
    (IF lab # "onlynext" /\ k > 1 THEN <<PrevLink(f, k, k - 1, lab)>> ELSE << >>)
    \o (IF numbered THEN [j \in 1..(n - 1) |-> NumLink(f, k, IF j < k THEN j ELSE j + 1)] ELSE << >>)
    \o (IF k < n THEN <<NextLink(f, k, k + 1, lab)>> ELSE << >>)

=============================================================================
