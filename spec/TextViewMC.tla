----------------------------- MODULE TextViewMC -----------------------------
(***************************************************************************)
(* Design-level check of TextView.tla: every abstract document of the      *)
(* bound (DocGen), the element list of Convert!Run with every text and     *)
(* media element kept, and EVERY assignment of tight edges to its word     *)
(* nodes.                                                                  *)
(***************************************************************************)
EXTENDS DocGen, TextView

CONSTANT AllFlagAssignments     \* TRUE: every assignment of content flags to the text / media elements; FALSE: all kept

VARIABLES picked, tight, flags
mvars == <<doc, picked, tight, flags>>

Elems == Run(doc, TRUE).elems
DF == INSTANCE DocFilters
AsDF(es, f) ==
    [i \in 1..Len(es) |->
        IF es[i].t = "tag" THEN [k |-> "tag", c |-> FALSE, name |-> es[i].k, start |-> es[i].start]
        ELSE IF es[i].t = "text" THEN [k |-> "text", c |-> f[i]]
        ELSE IF es[i].t = "table" THEN [k |-> "table", c |-> f[i]]
        ELSE [k |-> "image", c |-> f[i]]]
FinalFlags(es, f) == LET r == DF!Nested(AsDF(es, f)) IN [i \in 1..Len(es) |-> r[i].c]
Flags == flags

WordNodes == {n \in 1..Len(doc) : WordNode(doc, n)}
Loose == [l |-> FALSE, r |-> FALSE]

MInit == Init /\ picked = FALSE /\ tight = << >> /\ flags = << >>
MGrow == ~picked /\ Next /\ UNCHANGED <<picked, tight, flags>>
MPick == /\ ~picked /\ Len(doc) >= 1
         /\ \E f \in [WordNodes -> [l : BOOLEAN, r : BOOLEAN]] :
               tight' = [n \in 1..Len(doc) |-> IF n \in WordNodes THEN f[n] ELSE Loose]
         /\ \E c \in [1..Len(Elems) -> BOOLEAN] :
               /\ \A i \in 1..Len(Elems) : IF Elems[i].t = "tag" THEN ~c[i] ELSE (AllFlagAssignments \/ c[i])
               /\ flags' = FinalFlags(Elems, c)
         /\ picked' = TRUE /\ UNCHANGED doc
MNext == MGrow \/ MPick
MSpec == MInit /\ [][MNext]_mvars

Inv_ViewsAgree           == picked => ViewsAgree(doc, Elems, Flags, tight)
Inv_CountMatchesText     == picked => CountMatchesText(doc, Elems, Flags, tight)
Inv_CountExceedsByJoints == picked => CountExceedsByJoints(doc, Elems, Flags, tight)
=============================================================================
