----------------------------- MODULE TextViewMC -----------------------------
(***************************************************************************)
(* Design-level check of TextView.tla: every abstract document of the      *)
(* bound (DocGen), the element list of Convert!Run with every text and     *)
(* media element kept, and EVERY assignment of tight edges to its word     *)
(* nodes.                                                                  *)
(***************************************************************************)
EXTENDS DocGen, TextView

VARIABLES picked, tight
mvars == <<doc, picked, tight>>

Elems == Run(doc, TRUE).elems
DF == INSTANCE DocFilters
AsDF(es) ==
    [i \in 1..Len(es) |->
        IF es[i].t = "tag" THEN [k |-> "tag", c |-> FALSE, name |-> es[i].k, start |-> es[i].start]
        ELSE IF es[i].t = "text" THEN [k |-> "text", c |-> TRUE]
        ELSE IF es[i].t = "table" THEN [k |-> "table", c |-> TRUE]
        ELSE [k |-> "image", c |-> TRUE]]
Flags == LET r == DF!Nested(AsDF(Elems)) IN [i \in 1..Len(Elems) |-> r[i].c]

WordNodes == {n \in 1..Len(doc) : WordNode(doc, n)}
Loose == [l |-> FALSE, r |-> FALSE]

MInit == Init /\ picked = FALSE /\ tight = << >>
MGrow == ~picked /\ Next /\ UNCHANGED <<picked, tight>>
MPick == /\ ~picked /\ Len(doc) >= 1
         /\ \E f \in [WordNodes -> [l : BOOLEAN, r : BOOLEAN]] :
               tight' = [n \in 1..Len(doc) |-> IF n \in WordNodes THEN f[n] ELSE Loose]
         /\ picked' = TRUE /\ UNCHANGED doc
MNext == MGrow \/ MPick
MSpec == MInit /\ [][MNext]_mvars

Inv_ViewsAgree           == picked => ViewsAgree(doc, Elems, Flags, tight)
Inv_CountMatchesText     == picked => CountMatchesText(doc, Elems, Flags, tight)
Inv_CountExceedsByJoints == picked => CountExceedsByJoints(doc, Elems, Flags, tight)
=============================================================================
