------------------------------ MODULE DocGen ------------------------------
(***************************************************************************)
(* Enumerates abstract documents: Grow appends one node in pre-order.      *)
(* TLC's breadth-first search visits every document of at most MaxNodes    *)
(* nodes and depth MaxDepth over the alphabet Alphabet exactly once;        *)
(* -simulate draws random deeper ones.  Each visited document is dumped as *)
(* one JSON case for the conformance driver (harness/vdrive), which turns   *)
(* it into a real page and runs the real code on it.                        *)
(***************************************************************************)
EXTENDS Dom, TLC, Json

CONSTANTS Alphabet,    \* kinds that may occur
          RootKinds,   \* kinds allowed at top level
          MaxRoots,    \* at most this many top-level nodes
          MaxNodes, MaxDepth,
          MinDump,     \* dump only documents with at least this many nodes
          Dump         \* print cases?
ASSUME Alphabet \subseteq AllKinds /\ RootKinds \subseteq Alphabet

VARIABLE doc
vars == <<doc>>

\* may a node of kind c be a child of a node of kind p?
CanNest(p, c) ==
    CASE p \in {"UL", "OL"}    -> c = "LI"
      [] p = "P"               -> c \in TextKinds \cup InlineKinds \cup {"BR", "HIN", "IMG", "SKS", "CMT"}
      [] p = "H"               -> c \in TextKinds \cup {"INL", "A"}
      [] p = "AJ"              -> c \in {"T", "t", "INL", "IMG"}                        \* zoom / gallery links around a picture
      [] p = "A"               -> c \in TextKinds \cup {"INL", "BR", "IMG"}            \* a linked picture
      [] p \in InlineKinds     -> c \in TextKinds \cup {"INL", "BR"}
      [] p = "PRE"             -> c \in TextKinds \cup {"INL", "BR", "DIV", "P", "UL", "OL"}  \* highlighters put block lines into pre
      [] p = "HIN"             -> c \in TextKinds \cup {"INL"}
      [] p \in {"SKS", "SKF", "SHR"} -> c \in {"T", "t"}
      [] p \in FigKinds        -> c \in {"T", "t", "INL", "HIN", "SKS", "A", "CMT"}
      [] p = "TW"              -> c \in {"T", "t", "HIN", "SKS", "P"}
      [] p \in TableKinds      -> c \notin {"LI", "W"} \cup TableKinds
      [] OTHER                 -> c # "LI"      \* DIV, LI, BQ, HID: anything but a bare li

\* index of the node that would be the parent of a new node at depth d
ParentAt(d) == LET idx == {j \in 1..Len(doc) : doc[j].d = d - 1}
               IN  CHOOSE j \in idx : \A j2 \in idx : j >= j2

\* kinds on the path from the root to a new node at depth d
PathKinds(d) == {doc[CHOOSE j \in {i \in 1..Len(doc) : doc[i].d = e} :
                        \A j2 \in {i \in 1..Len(doc) : doc[i].d = e} : j >= j2].k : e \in 1..(d - 1)}

Init == doc = <<>>

Grow(k, d) ==
    /\ Len(doc) < MaxNodes
    /\ d \in 1..MaxDepth
    /\ IF doc = <<>> THEN d = 1
       ELSE /\ d <= doc[Len(doc)].d + 1
            /\ d = doc[Len(doc)].d + 1 => IsContainer(doc[Len(doc)].k)
    /\ IF d = 1
       THEN k \in RootKinds /\ Cardinality({i \in 1..Len(doc) : doc[i].d = 1}) < MaxRoots
       ELSE /\ CanNest(doc[ParentAt(d)].k, k)
            /\ k \in TableKinds => PathKinds(d) \cap TableKinds = {}   \* no nested tables
            /\ k \in FigKinds \cup EmbedBlock => PathKinds(d) \cap (FigKinds \cup EmbedBlock \cup {"P"}) = {}
    /\ doc' = Append(doc, Node(k, d))

Next == \E k \in Alphabet, d \in 1..MaxDepth : Grow(k, d)

Spec == Init /\ [][Next]_vars

TypeOK == WellFormed(doc) /\ \A i \in 1..Len(doc) : doc[i].k \in Alphabet

\* every reachable document is a case; the constraint only prints
DumpCase == (Dump /\ Len(doc) >= MinDump) => PrintT(<<"@@CASE", ToJson([nodes |-> doc])>>)
=============================================================================
