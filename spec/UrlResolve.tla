----------------------------- MODULE UrlResolve -----------------------------
(***************************************************************************)
(* Reference resolution of RFC 3986 section 5.2 over abstract URLs, the    *)
(* pass-through classes of property C06, and the rule that every element   *)
(* kind of the web document is handed the page URL.                        *)
(*                                                                         *)
(* An abstract URL is a record                                             *)
(*   [scheme, host,              "" = undefined                            *)
(*    abs, segs, dir,            the path: leading slash, the sequence of  *)
(*                               segments, trailing slash                  *)
(*    hasq, query, hasf, frag,   query / fragment (defined?, value)        *)
(*    bad]                       TRUE = not a URI reference under any      *)
(*                               reading (invalid %-escape, control char)  *)
(* Canonical form: segs = <<>> => dir = FALSE ("/" is abs with no segment, *)
(* "" is not abs with no segment).  harness/fam_url.go splits real URL     *)
(* strings lexically into exactly this record.                             *)
(*                                                                         *)
(*  - Merge, RemoveDotSegments, Resolve : RFC 3986 5.2.3, 5.2.4, 5.2.2     *)
(*    (strict).  RemoveDotSegments works on the segment sequence;          *)
(*    RemoveDotsRFC is the buffer algorithm of 5.2.4 transcribed literally *)
(*    over token sequences - TLC checks that the two agree.                *)
(*  - PassThrough(r): fragment-only, data:, javascript:, already absolute, *)
(*    unparseable.  Expected(b, r) is what C06 demands in the output for   *)
(*    original value r on a page with URL b.                               *)
(*  - the machine: a page (base, refs) is rewritten in one step; carrier k *)
(*    is rewritten with the page URL iff its element kind is in Handed.    *)
(*                                                                         *)
(* TLC enumerates bases x ref classes x carriers (x srcset shapes), checks *)
(* the invariants below in every state and dumps every case for the driver.*)
(***************************************************************************)
EXTENDS Integers, Sequences, FiniteSets, TLC, Json

CONSTANTS BaseIds,      \* subset of AllBaseIds
          RefClasses,   \* subset of AllRefClasses
          Carriers,     \* subset of AllCarriers
          MaxCand,      \* srcset carriers: 1..MaxCand candidates
          FullTuples,   \* TRUE: every tuple of classes for the candidates; FALSE: a rotation
          Handed,       \* element kinds that are handed the page URL (design: all of them)
          Dump

\* ---------------------------------------------------------------- abstract URLs
Url(scheme, host, abs, segs, dir, hasq, query, hasf, frag, bad) ==
    [scheme |-> scheme, host |-> host, abs |-> abs, segs |-> segs, dir |-> dir,
     hasq |-> hasq, query |-> query, hasf |-> hasf, frag |-> frag, bad |-> bad]

PathOf(u)  == [abs |-> u.abs, segs |-> u.segs, dir |-> u.dir]
EmptyPath  == [abs |-> FALSE, segs |-> <<>>, dir |-> FALSE]
Canon(p)   == IF p.segs = <<>> THEN [p EXCEPT !.dir = FALSE] ELSE p
WithPath(u, p) == [u EXCEPT !.abs = p.abs, !.segs = p.segs, !.dir = p.dir]
Dot(s)     == s \in {".", ".."}
DropLast(s) == IF s = <<>> THEN <<>> ELSE SubSeq(s, 1, Len(s) - 1)

\* ---------------------------------------------------------------- 5.2.4 on segments
RECURSIVE Rds(_, _)
Rds(in, out) ==
    IF in = <<>> THEN out
    ELSE IF Head(in) = "."  THEN Rds(Tail(in), out)
    ELSE IF Head(in) = ".." THEN Rds(Tail(in), DropLast(out))      \* never above the root
    ELSE Rds(Tail(in), Append(out, Head(in)))

\* a path whose last segment is a dot segment ends in "/" afterwards
RemoveDotSegments(p) ==
    Canon([abs  |-> p.abs,
           segs |-> Rds(p.segs, <<>>),
           dir  |-> p.dir \/ (p.segs # <<>> /\ Dot(p.segs[Len(p.segs)]))])

\* ---------------------------------------------------------------- 5.2.4 literally (token buffers)
RECURSIVE Inter(_)
Inter(segs) == IF Len(segs) <= 1 THEN segs ELSE <<Head(segs), "/">> \o Inter(Tail(segs))
ToTokens(p) == (IF p.abs THEN <<"/">> ELSE <<>>) \o Inter(p.segs) \o (IF p.dir THEN <<"/">> ELSE <<>>)

\* "removing the last segment and its preceding / (if any) from the output buffer"
DropLastSegment(out) ==
    IF out = <<>> THEN <<>>
    ELSE IF out[Len(out)] = "/" THEN DropLast(out)                  \* an empty last segment
    ELSE LET o1 == DropLast(out) IN IF o1 # <<>> /\ o1[Len(o1)] = "/" THEN DropLast(o1) ELSE o1

From(in, k) == SubSeq(in, k, Len(in))
RECURSIVE Rfc524(_, _)
Rfc524(in, out) ==
    IF in = <<>> THEN out
    ELSE IF Len(in) >= 2 /\ Dot(in[1]) /\ in[2] = "/"                 THEN Rfc524(From(in, 3), out)                 \* A
    ELSE IF Len(in) >= 3 /\ in[1] = "/" /\ in[2] = "." /\ in[3] = "/" THEN Rfc524(From(in, 3), out)                 \* B
    ELSE IF in = <<"/", ".">>                                          THEN Rfc524(<<"/">>, out)                     \* B
    ELSE IF Len(in) >= 3 /\ in[1] = "/" /\ in[2] = ".." /\ in[3] = "/" THEN Rfc524(From(in, 3), DropLastSegment(out)) \* C
    ELSE IF in = <<"/", "..">>                                         THEN Rfc524(<<"/">>, DropLastSegment(out))    \* C
    ELSE IF in = <<".">> \/ in = <<"..">>                              THEN Rfc524(<<>>, out)                        \* D
    ELSE IF in[1] = "/"                                                                                              \* E
         THEN IF Len(in) >= 2 /\ in[2] # "/" THEN Rfc524(From(in, 3), out \o <<"/", in[2]>>)
              ELSE Rfc524(Tail(in), Append(out, "/"))
         ELSE Rfc524(Tail(in), Append(out, in[1]))
RemoveDotsRFC(p) == Rfc524(ToTokens(p), <<>>)

\* ---------------------------------------------------------------- 5.2.3 / 5.2.2
\* the base path up to and including its last "/"
DirPart(b) == IF b.dir THEN b.segs ELSE DropLast(b.segs)
Merge(b, rp) ==
    IF b.host # "" /\ PathOf(b) = EmptyPath
    THEN [abs |-> TRUE, segs |-> rp.segs, dir |-> rp.dir]
    ELSE [abs |-> b.abs, segs |-> DirPart(b) \o rp.segs, dir |-> rp.dir]

Resolve(b, r) ==
    LET rp == PathOf(r) IN
    IF r.scheme # "" THEN WithPath(r, RemoveDotSegments(rp))
    ELSE IF r.host # "" THEN WithPath([r EXCEPT !.scheme = b.scheme], RemoveDotSegments(rp))
    ELSE IF rp = EmptyPath
         THEN [b EXCEPT !.hasq = IF r.hasq THEN TRUE ELSE b.hasq,
                        !.query = IF r.hasq THEN r.query ELSE b.query,
                        !.hasf = r.hasf, !.frag = r.frag]
    ELSE LET p == IF r.abs THEN RemoveDotSegments(rp) ELSE RemoveDotSegments(Merge(b, rp))
         IN  [WithPath(b, p) EXCEPT !.hasq = r.hasq, !.query = r.query, !.hasf = r.hasf, !.frag = r.frag]

\* ---------------------------------------------------------------- the classes of C06
IsEmptyRef(r)     == ~r.bad /\ r.scheme = "" /\ r.host = "" /\ PathOf(r) = EmptyPath /\ ~r.hasq /\ ~r.hasf
IsFragmentOnly(r) == r.scheme = "" /\ r.host = "" /\ PathOf(r) = EmptyPath /\ ~r.hasq /\ r.hasf
IsData(r)         == r.scheme = "data"
IsJavascript(r)   == r.scheme = "javascript"
IsAbsolute(r)     == ~r.bad /\ r.scheme # "" /\ r.host # ""
IsUnparseable(r)  == r.bad
PassThrough(r)    == IsFragmentOnly(r) \/ IsData(r) \/ IsJavascript(r) \/ IsAbsolute(r) \/ IsUnparseable(r)
\* a reference the statement wants resolved (the empty reference is kept apart, see props_C06 assumptions)
IsRelative(r)     == ~PassThrough(r) /\ ~IsEmptyRef(r) /\ r.scheme = ""
WebAbsolute(u)    == u.scheme \in {"http", "https"} /\ u.host # ""

Expected(b, r) == IF PassThrough(r) THEN r ELSE Resolve(b, r)

\* ---------------------------------------------------------------- enumerated values
AllBaseIds == {"root0", "root", "file", "dir", "query", "deep"}
AllRefClasses == {"rel", "relqf", "reldir", "embedq", "dot", "up1", "up2", "rootrel", "schemerel", "query", "empty",
                  "frag", "data", "js", "http", "https", "badesc", "ctl"}
AllCarriers == {"a_para", "a_li", "a_wrap", "a_head", "a_figcap", "a_cell", "img_src", "img_srcset", "picture_source_srcset", "picture_img",
                "video_src", "video_poster", "source_src", "track_src", "img_table", "fig_img"}
SrcsetCarriers == {"img_srcset", "picture_source_srcset"}
ElementKinds == {"text", "table", "image", "figure", "video"}
KindOf(carrier) ==
    CASE carrier \in {"a_para", "a_li", "a_wrap", "a_head"} -> "text"
      [] carrier \in {"a_cell", "img_table"} -> "table"
      [] carrier \in {"img_src", "img_srcset", "picture_source_srcset", "picture_img"} -> "image"
      [] carrier \in {"a_figcap", "fig_img"} -> "figure"
      [] OTHER -> "video"
ASSUME /\ BaseIds \subseteq AllBaseIds /\ RefClasses \subseteq AllRefClasses /\ Carriers \subseteq AllCarriers
       /\ Handed \subseteq ElementKinds /\ MaxCand \in 1..3

Plain(scheme, host, abs, segs, dir) == Url(scheme, host, abs, segs, dir, FALSE, "", FALSE, "", FALSE)
Site == "site.example.com"
BaseOf(id) ==
    CASE id = "root0" -> Plain("http", Site, FALSE, <<>>, FALSE)                                   \* http://site.example.com
      [] id = "root"  -> Plain("https", Site, TRUE, <<>>, FALSE)                                   \* https://site.example.com/
      [] id = "file"  -> Plain("https", Site, TRUE, <<"news", "story.html">>, FALSE)               \* .../news/story.html
      [] id = "dir"   -> Plain("http", Site, TRUE, <<"news", "archive">>, TRUE)                    \* .../news/archive/
      [] id = "query" -> Url("https", Site, TRUE, <<"news", "view.php">>, FALSE, TRUE, "id=7", FALSE, "", FALSE)
      [] id = "deep"  -> Plain("http", Site, TRUE, <<"a", "b", "c", "d", "e.html">>, FALSE)

\* the reference of a class; leaf is the marker-bearing part ("u<N>.png" in a real page)
RefOf(cls, leaf) ==
    CASE cls = "rel"       -> Plain("", "", FALSE, <<leaf>>, FALSE)                                 \* leaf
      [] cls = "relqf"     -> Url("", "", FALSE, <<"pix", leaf>>, FALSE, TRUE, "v=1", TRUE, "top", FALSE)  \* pix/leaf?v=1#top
      [] cls = "reldir"    -> Plain("", "", FALSE, <<"sub", leaf>>, TRUE)                           \* sub/leaf/
      [] cls = "embedq"    -> Url("", "", TRUE, <<"out", leaf>>, FALSE, TRUE, "to=https://other.example.org/a&x=1", FALSE, "", FALSE)
                              \* /out/leaf?to=https://other.example.org/a&x=1 : a relative reference carrying another URL
      [] cls = "dot"       -> Plain("", "", FALSE, <<".", leaf>>, FALSE)                            \* ./leaf
      [] cls = "up1"       -> Plain("", "", FALSE, <<"..", leaf>>, FALSE)                           \* ../leaf
      [] cls = "up2"       -> Plain("", "", FALSE, <<"..", "..", leaf>>, FALSE)                     \* ../../leaf
      [] cls = "rootrel"   -> Plain("", "", TRUE, <<"media", leaf>>, FALSE)                         \* /media/leaf
      [] cls = "schemerel" -> Plain("", "cdn.example.net", TRUE, <<"p", leaf>>, FALSE)              \* //cdn.example.net/p/leaf
      [] cls = "query"     -> Url("", "", FALSE, <<>>, FALSE, TRUE, "id=" \o leaf, FALSE, "", FALSE)  \* ?id=leaf
      [] cls = "empty"     -> Plain("", "", FALSE, <<>>, FALSE)
      [] cls = "frag"      -> Url("", "", FALSE, <<>>, FALSE, FALSE, "", TRUE, leaf, FALSE)         \* #leaf
      [] cls = "data"      -> Plain("data", "", FALSE, <<"text", "plain," \o leaf>>, FALSE)         \* data:text/plain,leaf
      [] cls = "js"        -> Plain("javascript", "", FALSE, <<"void(" \o leaf \o ")">>, FALSE)     \* javascript:void(leaf)
      [] cls = "http"      -> Plain("http", "other.example.org", TRUE, <<"pic", leaf>>, FALSE)
      [] cls = "https"     -> Url("https", "other.example.org", TRUE, <<"pic", leaf>>, FALSE, TRUE, "v=2", FALSE, "", FALSE)
      [] cls = "badesc"    -> Url("", "", FALSE, <<"%zz", leaf>>, FALSE, FALSE, "", FALSE, "", TRUE)  \* %zz/leaf
      [] cls = "ctl"       -> Url("", "", FALSE, <<"c" \o leaf>>, FALSE, FALSE, "", FALSE, "", TRUE)  \* c<0x01>u7.png: the real leaf starts with the control character

\* ---------------------------------------------------------------- cases
Descs == {"none", "x", "w"}
SrcsetClasses == RefClasses \ {"empty"}            \* a srcset candidate is never empty
Order == <<"rel", "relqf", "reldir", "embedq", "dot", "up1", "up2", "rootrel", "schemerel", "query",
           "frag", "data", "js", "http", "https", "badesc", "ctl">>
IndexOf(cls) == CHOOSE k \in 1..Len(Order) : Order[k] = cls
RECURSIVE RotFrom(_, _)
RotFrom(k, n) == IF n = 0 THEN "none"       \* the next class of Order that is enabled, at most one full turn
                 ELSE LET j == (k % Len(Order)) + 1 IN IF Order[j] \in SrcsetClasses THEN Order[j] ELSE RotFrom(j, n - 1)
Rot(cls) == RotFrom(IndexOf(cls), Len(Order))

Case(b, car, cls, n, d, c2, c3) == [base |-> b, carrier |-> car, cls |-> cls, n |-> n, desc |-> d, cls2 |-> c2, cls3 |-> c3]
RotMap == [cls \in SrcsetClasses |-> Rot(cls)]
\* the cases over base ids Bs and carriers Cs
CasesOver(Bs, Cs) ==
    LET SC == Cs \cap SrcsetCarriers
        XW == {"x", "w"}
    IN  {Case(b, car, cls, 1, "none", "none", "none") : b \in Bs, car \in Cs \ SrcsetCarriers, cls \in RefClasses}
        \cup {Case(b, car, cls, 1, d, "none", "none") : b \in Bs, car \in SC, cls \in SrcsetClasses, d \in Descs}
        \cup (IF MaxCand < 2 THEN {}
              ELSE IF FullTuples
              THEN {Case(b, car, cls, 2, d, c2, "none") : b \in Bs, car \in SC, cls \in SrcsetClasses, d \in XW, c2 \in SrcsetClasses}
              ELSE {Case(b, car, cls, 2, d, RotMap[cls], "none") : b \in Bs, car \in SC, cls \in SrcsetClasses, d \in XW})
        \cup (IF MaxCand < 3 THEN {}
              ELSE IF FullTuples
              THEN {Case(b, car, cls, 3, d, c2, c3) : b \in Bs, car \in SC, cls \in SrcsetClasses, d \in XW,
                                                      c2 \in SrcsetClasses, c3 \in SrcsetClasses}
              ELSE {Case(b, car, cls, 3, d, RotMap[cls], RotMap[RotMap[cls]]) : b \in Bs, car \in SC, cls \in SrcsetClasses, d \in XW})
Cases == CasesOver(BaseIds, Carriers)

ClassesOf(c) == IF c.n = 1 THEN <<c.cls>> ELSE IF c.n = 2 THEN <<c.cls, c.cls2>> ELSE <<c.cls, c.cls2, c.cls3>>
Leaf(k) == IF k = 1 THEN "LEAF1" ELSE IF k = 2 THEN "LEAF2" ELSE "LEAF3"

\* ---------------------------------------------------------------- the machine
\* c: the case (generator only); base: page URL; refs: the URL values of the page, each
\* [carrier, u]; outs: the values in the distilled output, in the same order
VARIABLES c, base, refs, outs, phase
vars == <<c, base, refs, outs, phase>>

RefsOfCase(cc) == [k \in 1..cc.n |-> [carrier |-> cc.carrier, u |-> RefOf(ClassesOf(cc)[k], Leaf(k))]]

\* The case is chosen in two steps (page URL and carrier first, the reference classes
\* second) so that the product is not one set of initial states; phase "pick" = not chosen yet.
Init == /\ c \in {Case(b, car, "none", 0, "none", "none", "none") : b \in BaseIds, car \in Carriers}
        /\ base = BaseOf(c.base)
        /\ refs = <<>>
        /\ outs = <<>>
        /\ phase = "pick"

Pick == /\ phase = "pick"
        /\ c' \in CasesOver({c.base}, {c.carrier})
        /\ refs' = RefsOfCase(c')
        /\ phase' = "source"
        /\ UNCHANGED <<base, outs>>

\* what the output holds for value r of a carrier: the element kind that carries it was
\* handed the page URL (then C06's expected value) or was not (then the value is untouched)
OutOf(carrier, b, r) == IF KindOf(carrier) \in Handed THEN Expected(b, r) ELSE r

Rewrite == /\ phase = "source"
           /\ outs' = [k \in 1..Len(refs) |-> OutOf(refs[k].carrier, base, refs[k].u)]
           /\ phase' = "output"
           /\ UNCHANGED <<c, base, refs>>

Next == Pick \/ Rewrite
Spec == Init /\ [][Next]_vars

\* ---------------------------------------------------------------- invariants
UrlOK(u) == /\ u.scheme \in STRING /\ u.host \in STRING /\ u.abs \in BOOLEAN /\ u.dir \in BOOLEAN
            /\ u.hasq \in BOOLEAN /\ u.hasf \in BOOLEAN /\ u.bad \in BOOLEAN
            /\ Canon(PathOf(u)) = PathOf(u)
            /\ (~u.hasq => u.query = "") /\ (~u.hasf => u.frag = "")
TypeOK == /\ UrlOK(base) /\ \A k \in 1..Len(refs) : UrlOK(refs[k].u)
          /\ \A k \in 1..Len(outs) : UrlOK(outs[k])
          /\ phase \in {"pick", "source", "output"}

\* the base URLs are absolute, dot-free, fragment-free
BaseWellFormed == WebAbsolute(base) /\ ~base.hasf /\ \A k \in 1..Len(base.segs) : ~Dot(base.segs[k])

Refs == {refs[k].u : k \in 1..Len(refs)}

\* C06 at design level: every relative reference resolves to an absolute URL on the page's scheme
\* (and, unless scheme-relative, the page's host)
ResolveAbsolute ==
    \A r \in Refs : (IsRelative(r) \/ IsEmptyRef(r)) =>
        LET t == Resolve(base, r) IN
        /\ WebAbsolute(t) /\ t.scheme = base.scheme
        /\ t.host = (IF r.host # "" THEN r.host ELSE base.host)
        /\ ~t.bad

\* Resolve is the identity on (dot-free) absolute references: the two demands of the statement -
\* "resolved against the page URL" and "already-absolute URLs unchanged" - do not contradict each other
ResolveIdentityOnAbsolute == \A r \in Refs : IsAbsolute(r) => Resolve(base, r) = r

\* resolving an already resolved URL changes nothing
ResolveIdempotent == \A r \in Refs : ~r.bad => Resolve(base, Resolve(base, r)) = Resolve(base, r)

\* dot segments never climb above the root, and none survives
NoClimbAboveRoot ==
    \A r \in Refs : (IsRelative(r) /\ PathOf(r) # EmptyPath) =>
        LET t == Resolve(base, r) IN
        /\ t.abs
        /\ \A k \in 1..Len(t.segs) : ~Dot(t.segs[k])
        /\ Len(t.segs) <= (IF r.abs \/ r.host # "" THEN 0 ELSE Len(DirPart(base))) + Len(r.segs)
        /\ t.segs # <<>> /\ r.segs # <<>> /\ t.segs[Len(t.segs)] = r.segs[Len(r.segs)]    \* the leaf survives

\* query-only and empty references keep the base path; an empty one also the base query
KeepBasePath ==
    \A r \in Refs : (~r.bad /\ r.scheme = "" /\ r.host = "" /\ PathOf(r) = EmptyPath) =>
        LET t == Resolve(base, r) IN
        /\ PathOf(t) = PathOf(base) /\ t.scheme = base.scheme /\ t.host = base.host
        /\ (r.hasq => t.hasq /\ t.query = r.query)
        /\ (~r.hasq => t.hasq = base.hasq /\ t.query = base.query)
        /\ t.hasf = r.hasf /\ t.frag = r.frag

\* the segment formulation of 5.2.4 agrees with the literal buffer algorithm on every path
\* that Resolve hands to it for this case
PathsToClean == {PathOf(r) : r \in Refs} \cup {Merge(base, PathOf(r)) : r \in {q \in Refs : PathOf(q) # EmptyPath /\ ~q.abs}}
DotsAgreeWithRFC ==
    \A p \in PathsToClean : (p.abs \/ \A k \in 1..Len(p.segs) : ~Dot(p.segs[k])) =>
        ToTokens(RemoveDotSegments(p)) = RemoveDotsRFC(p)

\* the five pass-through classes are disjoint from the references that get resolved, and the
\* enumerated classes fall where the statement puts them
ClassesAsStated ==
    phase # "pick" => \A k \in 1..Len(refs) : LET r == refs[k].u  cls == ClassesOf(c)[k] IN
        /\ (cls \in {"frag", "data", "js", "http", "https", "badesc", "ctl"}) = PassThrough(r)
        /\ (cls = "empty") = IsEmptyRef(r)
        /\ (cls \in {"rel", "relqf", "reldir", "embedq", "dot", "up1", "up2", "rootrel", "schemerel", "query"}) = IsRelative(r)

\* C06 on the machine: with every kind handed the page URL the output is absolute / unchanged
OutputAbsolute ==
    phase = "output" =>
        \A k \in 1..Len(refs) : LET r == refs[k].u IN
            /\ (IsRelative(r) => WebAbsolute(outs[k]) /\ outs[k] = Resolve(base, r))
            /\ (PassThrough(r) => outs[k] = r)

DumpCase == (Dump /\ phase = "output") => PrintT(<<"@@CASE", ToJson([p |-> c])>>)
=============================================================================
