------------------------------- MODULE Dom -------------------------------
(***************************************************************************)
(* Abstract documents.  A document is the PRE-ORDER sequence of its nodes, *)
(* each a record [k |-> kind, d |-> depth].  The sequence <<n1,...,nm>> is  *)
(* a tree iff n1.d = 1 or the first node hangs below the (implicit) root   *)
(* at depth 0 and every later node is at most one level deeper than its    *)
(* predecessor.  This encodes every finite ordered forest exactly once,    *)
(* and "skip the subtree of node i" is a jump to SubtreeEnd(doc, i) + 1.   *)
(*                                                                         *)
(* Kinds are CLASSES of HTML constructs; the concretiser (harness/) picks   *)
(* a concrete member per node (e.g. INL -> b,i,em,strong,span,u,code).     *)
(***************************************************************************)
EXTENDS Integers, Sequences, FiniteSets

\* ---- the kind alphabet (strings so that traces/cases are plain JSON) ----
TextKinds      == {"T", "t", "W"}            \* long text, short text, whitespace
InlineKinds    == {"INL", "A", "AJ", "FONT"} \* inline containers; AJ = javascript: anchor
BlockKinds     == {"P", "DIV", "H", "MRK", "BODY"}   \* flushing block containers; MRK = a div whose class/id/role marks it
                                              \* unlikely content; BODY = html / body (never dropped as empty)
NestKinds      == {"UL", "OL", "LI", "BQ", "PRE"}   \* CanBeNested: emit Tag start/end
HiddenKinds    == {"HID", "HIN"}             \* hidden block / hidden inline container
SkipSilent     == {"SKS"}                    \* script, style, noscript, svg, unknown iframe, link
SkipFlush      == {"SKF"}                    \* form, button, select, textarea, object, embed, applet
SocialKinds    == {"SHR"}                    \* a social / sharing box: a visible block the converter leaves out without a word
MediaKinds     == {"IMG", "VID", "EMB"}      \* leaf media: image, video, recognised embed frame
EmbedBlock     == {"TW"}                     \* tweet blockquote: moved into an embed placeholder
ChromeKinds    == {"LNK"}                    \* leaf: a link-dense cluster (boilerplate-looking text)
FigKinds       == {"FIG", "FIGL"}            \* figure (caption flattened) / figure with linked caption
TableKinds     == {"DT", "LT"}               \* data table (atomic), layout table (walked)
OtherLeaf      == {"BR", "CMT"}              \* line break, comment

AllKinds == TextKinds \cup InlineKinds \cup BlockKinds \cup NestKinds \cup HiddenKinds
            \cup SkipSilent \cup SkipFlush \cup MediaKinds \cup FigKinds \cup TableKinds
            \cup OtherLeaf \cup EmbedBlock \cup ChromeKinds \cup SocialKinds

ContainerKinds == InlineKinds \cup BlockKinds \cup NestKinds \cup HiddenKinds
                  \cup SkipSilent \cup SkipFlush \cup FigKinds \cup TableKinds \cup EmbedBlock \cup SocialKinds

IsContainer(k) == k \in ContainerKinds
HasWords(k)    == k \in {"T", "t"}

\* ---- tree operators over a pre-order sequence ---------------------------
Node(k, d) == [k |-> k, d |-> d]

WellFormed(doc) ==
    /\ \A i \in 1..Len(doc) : doc[i].d >= 1
    /\ Len(doc) > 0 => doc[1].d = 1
    /\ \A i \in 1..(Len(doc) - 1) : doc[i+1].d <= doc[i].d + 1
    /\ \A i \in 1..(Len(doc) - 1) : doc[i+1].d = doc[i].d + 1 => IsContainer(doc[i].k)

\* last index of the subtree rooted at i
SubtreeEnd(doc, i) ==
    LET later == {j \in (i+1)..Len(doc) : doc[j].d <= doc[i].d}
    IN  IF later = {} THEN Len(doc)
        ELSE (CHOOSE j \in later : \A j2 \in later : j <= j2) - 1

\* parent index, 0 for top-level nodes
Parent(doc, i) ==
    LET cands == {j \in 1..(i-1) : doc[j].d = doc[i].d - 1 /\ SubtreeEnd(doc, j) >= i}
    IN  IF cands = {} THEN 0 ELSE CHOOSE j \in cands : \A j2 \in cands : j >= j2

Ancestors(doc, i) == {j \in 1..(i-1) : doc[j].d < doc[i].d /\ SubtreeEnd(doc, j) >= i}

Children(doc, i) == {j \in (i+1)..Len(doc) : doc[j].d = doc[i].d + 1 /\ SubtreeEnd(doc, i) >= j}

\* ancestors of i, outermost first, as a sequence of indices
AncestorSeq(doc, i) ==
    LET S == Ancestors(doc, i)
        RECURSIVE build(_)
        build(T) == IF T = {} THEN <<>>
                    ELSE LET m == CHOOSE x \in T : \A y \in T : x <= y
                         IN  <<m>> \o build(T \ {m})
    IN  build(S)

\* the chain of nestable ancestors (ul/ol/li/blockquote/pre) of node i, outermost first
NestChain(doc, i) ==
    LET as == AncestorSeq(doc, i)
    IN  SelectSeq([n \in 1..Len(as) |-> doc[as[n]].k], LAMBDA k : k \in NestKinds)

UnderKind(doc, i, K) == \E j \in Ancestors(doc, i) : doc[j].k \in K

\* text that a reader never sees, wherever it sits
NeverShown(doc, i) == UnderKind(doc, i, HiddenKinds \cup {"SKS"}) \/ doc[i].k = "CMT"
=============================================================================
