----------------------------- MODULE TableTrace -----------------------------
(***************************************************************************)
(* Trace specification for C18.  Each run: Call (the feature vector f the  *)
(* table was built from, its placement, and what the harness measured on   *)
(* the parsed table) then Return (the real classifier's verdict and reason *)
(* from the verif hooks, and whether the table came out whole).            *)
(*                                                                         *)
(* The run is a behaviour of the TableClass machine: Call = Init with the  *)
(* logged f, Return = Decide with the logged verdict.  Verdict predicates: *)
(*   C18_VerdictDocumented  real verdict = Documented(f)                   *)
(*   C18_OutputFollows      a retained data table is a <table> in the      *)
(*                          output, a layout table is flattened            *)
(* Fidelity (never a violation): real reason = ModelReason(f), and the     *)
(* harness's measurements equal what Build(f) promises.                    *)
(***************************************************************************)
EXTENDS TableClass, IOUtils

Trace == ndJsonDeserialize(IOEnv.TRACE_FILE)

VARIABLES l, pc, run, place, bad
tvars == <<vars, l, pc, run, place, bad>>

IsEvent(e) == l <= Len(Trace) /\ Trace[l].ev = e /\ l' = l + 1

TInit == /\ l = 1 /\ pc = "idle" /\ run = 0 /\ place = "" /\ bad = {}
         /\ f = [editable |-> FALSE] /\ i = 0 /\ verdict = "none" /\ reason = "none"

\* what the harness counted on the parsed table agrees with Build(f) as the code reads it
\* (the harness counts the cells of the tested table only, the nested table's own cell is not among them)
PlainCols(g) == LET t == Build(g) IN Max({TdIn(t[r]) : r \in 1..g.rows})
MeasuredAsBuilt(g, m) == m.tr = g.rows /\ m.maxtd = PlainCols(g) /\ m.td = CodeCells(g)

Call == /\ IsEvent("Call")
        /\ pc \in {"idle", "returned", "crashed"}
        /\ pc' = "called"
        /\ run' = Trace[l].run
        /\ place' = Trace[l].place
        /\ f' = Trace[l].f
        /\ i' = 1 /\ verdict' = "none" /\ reason' = "none"
        /\ bad' = {}
        /\ (~MeasuredAsBuilt(Trace[l].f, Trace[l].measured)) =>
              PrintT(<<"@@DRIFT", ToJson([run |-> Trace[l].run, what |-> "generated table differs from Build(f)",
                                          f |-> Trace[l].f, measured |-> Trace[l].measured])>>)

Failed(o) ==
    IF o.err \/ ~o.nodeok \/ ~o.visited THEN {}
    ELSE (IF o.type # Documented(f) THEN {"C18_VerdictDocumented"} ELSE {})
         \cup (IF place \in {"body", "div"} /\ o.cellkept /\ o.tableout # (Documented(f) = "data")
               THEN {"C18_OutputFollows"} ELSE {})

Return == /\ IsEvent("Return")
          /\ pc = "called"
          /\ Trace[l].run = run
          /\ pc' = "returned"
          /\ LET o == Trace[l].obs IN
               /\ verdict' = o.type /\ reason' = o.reason
               /\ i' = IF o.visited THEN FirstRule(f, 1) ELSE i
               /\ bad' = Failed(o)
               /\ \A name \in bad' :
                     PrintT(<<"@@BAD", ToJson([run |-> run, inv |-> name, class |-> ModelReason(f)])>>)
               /\ (o.visited /\ o.reason # ModelReason(f)) =>
                     PrintT(<<"@@DRIFT", ToJson([run |-> run, what |-> "reason", got |-> o.reason, model |-> ModelReason(f)])>>)
          /\ UNCHANGED <<f, run, place>>

Crash == /\ (IsEvent("Panic") \/ IsEvent("Hang"))
         /\ pc = "called" /\ Trace[l].run = run
         /\ pc' = "crashed"
         /\ PrintT(<<"@@CRASH", ToJson([run |-> run, ev |-> Trace[l].ev])>>)
         /\ UNCHANGED <<vars, run, place, bad>>

TNext == Call \/ Return \/ Crash
TraceSpec == TInit /\ [][TNext]_tvars

NoViolation == bad = {}

TraceAccepted ==
    LET d == TLCGet("stats").diameter
    IN  IF d - 1 = Len(Trace) THEN PrintT(<<"@@ACCEPTED", Len(Trace)>>)
        ELSE PrintT(<<"@@REJECTED-AT-LINE", d>>) /\ FALSE
=============================================================================
