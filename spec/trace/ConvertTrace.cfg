CONSTANTS
 WalkerCapturesNext = TRUE
 EmptyBlockFlushes = TRUE
INIT Init
NEXT Next
CHECK_DEADLOCK FALSE
POSTCONDITION TraceAccepted
