CONSTANTS
 WalkerCapturesNext = TRUE
 EmptyBlockFlushes = TRUE
 EmptyLooksAtChildren = TRUE
INIT Init
NEXT Next
CHECK_DEADLOCK FALSE
POSTCONDITION TraceAccepted
