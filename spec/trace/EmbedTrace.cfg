CONSTANTS
 Carriers = {"iframe"}
 Schemes = {"https"}
 Users = {"none"}
 HostShapes = {"root"}
 Roots = {"youtube"}
 Paths = {"none"}
 Queries = {"none"}
 Frags = {"none"}
 AllPathsOffList = FALSE
 Dump = FALSE
INIT TInit
NEXT TNext
CHECK_DEADLOCK FALSE
POSTCONDITION TraceAccepted
