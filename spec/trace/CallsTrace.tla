----------------------------- MODULE CallsTrace -----------------------------
(***************************************************************************)
(* Trace specification for histories of calls (C01, C10, C11, C13 and the  *)
(* pipeline part of C20).  The trace holds GROUPS of calls on one          *)
(* document; every call is                                                 *)
(*     Call, RootCheck, Pass(1), [Pass(2)], DocFilter x3, Rendered,        *)
(*     [Paginated], Return      (or Panic / Hang)                          *)
(* where the inner events come from the verif hooks of the real code.      *)
(* Each event is replayed through the action of Distiller.tla with the     *)
(* same guard (the Can... operators); an event whose guard is false, or whose logged value *)
(* contradicts the model, puts the name of the broken rule into `bad`.     *)
(* Across the calls of a group, `mem` remembers the first observed digests *)
(* per key (Calls.tla: firstCore) and every later Return must agree.       *)
(***************************************************************************)
EXTENDS Distiller, Json, IOUtils

Trace == ndJsonDeserialize(IOEnv.TRACE_FILE)

VARIABLES l, run, grp, prop, entry, urlid, bytes,
          docid,   \* which document this call distils (groups interleave calls on several documents)
          variant, \* C20: which of the three documents of a metamorphic triple this call distils ("" otherwise)
          mem,     \* set of [k, v]: first digest seen per key in the current group
          bad
tvars == <<vars, l, run, grp, prop, entry, urlid, bytes, docid, variant, mem, bad>>

Lookup(k)  == {m.v : m \in {x \in mem : x.k = k}}
Seen(k)    == Lookup(k) # {}
ValOf(k)   == CHOOSE v \in Lookup(k) : TRUE

IsEvent(e) == l <= Len(Trace) /\ Trace[l].ev = e /\ l' = l + 1
Mine       == Trace[l].run = run

TInit == /\ Init /\ root = "document" /\ opts = [nil |-> TRUE, log |-> 0, url |-> FALSE, skip |-> FALSE, algo |-> "prevnext"]
         /\ l = 1 /\ run = 0 /\ grp = 0 /\ prop = "" /\ entry = "" /\ urlid = 0 /\ bytes = FALSE /\ docid = 0 /\ variant = "" /\ mem = {} /\ bad = {}

Report(names) ==
    \A name \in names : PrintT(<<"@@BAD", ToJson([run |-> run, inv |-> name, class |-> entry \o "/" \o root])>>)

TCall == /\ IsEvent("Call")
         /\ pc \in {"idle", "returned", "crashed"}
         /\ pc' = "called"
         /\ run' = Trace[l].run /\ prop' = Trace[l].prop /\ entry' = Trace[l].entry
         /\ urlid' = Trace[l].urlid /\ bytes' = Trace[l].bytes /\ docid' = Trace[l].doc /\ variant' = Trace[l].variant
         /\ grp' = Trace[l].grp
         /\ mem' = IF Trace[l].grp = grp THEN mem ELSE {}
         /\ root' = Trace[l].root
         /\ opts' = [nil |-> Trace[l].nil, log |-> Trace[l].log, url |-> Trace[l].url, skip |-> Trace[l].skip, algo |-> Trace[l].algo]
         /\ passes' = 0 /\ flags' = FALSE /\ wc1' = -1 /\ wc' = -1 /\ nfilt' = 0 /\ paginated' = FALSE
         /\ result' = NoResult /\ callerWrites' = {}
         /\ bad' = {}

TRootCheck ==
    /\ IsEvent("RootCheck") /\ Mine
    /\ LET ok == Trace[l].ok
           b  == (IF ~CanRootCheck(pc) THEN {"C01_PhaseOrder"} ELSE {})
                 \cup (IF ok # HasElement(root) THEN {"C01_RootValidation"} ELSE {})
       IN  /\ pc' = IF ok THEN "rooted" ELSE "failed"
           /\ bad' = bad \cup b /\ Report(b)
    /\ UNCHANGED <<root, opts, passes, flags, wc1, wc, nfilt, paginated, result, callerWrites, run, grp, prop, entry, urlid, bytes, docid, variant, mem>>

TPass ==
    /\ IsEvent("Pass") /\ Mine
    /\ LET n == Trace[l].n
           b == IF n = 1
                THEN (IF ~CanPass1(pc) THEN {"C01_PhaseOrder"} ELSE {})
                     \cup (IF ~Trace[l].skip THEN {"C20_FirstPassSkipsUnlikelies"} ELSE {})
                ELSE (IF ~CanPass2(pc, passes, wc1) THEN {"C20_SecondPassOnlyBelowThreshold"} ELSE {})
                     \cup (IF Trace[l].skip THEN {"C20_SecondPassIgnoresMarkers"} ELSE {})
       IN  /\ passes' = n /\ flags' = Trace[l].skip /\ wc' = Trace[l].wc
           /\ wc1' = IF n = 1 THEN Trace[l].wc ELSE wc1
           /\ pc' = "pass"
           /\ bad' = bad \cup b /\ Report(b)
    /\ UNCHANGED <<root, opts, nfilt, paginated, result, callerWrites, run, grp, prop, entry, urlid, bytes, docid, variant, mem>>

TDocFilter ==
    /\ IsEvent("DocFilter") /\ Mine
    /\ LET b == (IF ~CanFilter(pc, passes, wc1, nfilt)
                 THEN (IF pc = "pass" /\ passes = 1 /\ wc1 < Threshold
                       THEN {"C20_SecondPassWhenBelowThreshold"} ELSE {"C01_PhaseOrder"})
                 ELSE {})
                \cup (IF nfilt < 3 /\ Trace[l].name # FilterOrder[nfilt + 1] THEN {"C08_FilterOrder"} ELSE {})
       IN  /\ nfilt' = IF nfilt < 3 THEN nfilt + 1 ELSE nfilt
           /\ bad' = bad \cup b /\ Report(b)
    /\ UNCHANGED <<pc, root, opts, passes, flags, wc1, wc, paginated, result, callerWrites, run, grp, prop, entry, urlid, bytes, docid, variant, mem>>

TRendered ==
    /\ IsEvent("Rendered") /\ Mine
    /\ LET b == (IF ~CanRender(pc, nfilt) THEN {"C01_PhaseOrder"} ELSE {})
                \cup (IF Trace[l].wc # wc THEN {"C20_WordCountOfLastPass"} ELSE {})
       IN  /\ pc' = "rendered"
           /\ result' = [err |-> FALSE, wc |-> Trace[l].wc, url |-> Eff(opts).url, pagination |-> FALSE]
           /\ bad' = bad \cup b /\ Report(b)
    /\ UNCHANGED <<root, opts, passes, flags, wc1, wc, nfilt, paginated, callerWrites, run, grp, prop, entry, urlid, bytes, docid, variant, mem>>

TPaginated ==
    /\ IsEvent("Paginated") /\ Mine
    /\ LET b == IF ~CanPaginate(pc, opts) \/ paginated THEN {"C13_PaginationOnlyWhenAsked"} ELSE {}
       IN  /\ paginated' = TRUE
           /\ bad' = bad \cup b /\ Report(b)
    /\ UNCHANGED <<pc, root, opts, passes, flags, wc1, wc, nfilt, result, callerWrites, run, grp, prop, entry, urlid, bytes, docid, variant, mem>>

\* keys of the group memory
KExact == <<"exact", docid, entry, opts, urlid>>
KOpts  == <<"opts", docid, opts, urlid>>
KCore  == <<"core", docid, urlid>>
KPag   == <<"pag", docid, urlid, Eff(opts).algo>>

TReturn ==
    /\ IsEvent("Return") /\ Mine
    /\ LET o == Trace[l].obs
           isErr == o.err
           \* ---- single-call rules
           b1 == IF isErr
                 THEN (IF pc = "failed" \/ (pc = "called" /\ bytes) THEN {} ELSE {"C01_ResultWellFormed"})
                 ELSE (IF pc = "failed" THEN {"C01_ErrorWhenNoElement"} ELSE {})
                      \cup (IF ~o.nodeok \/ pc # "rendered" THEN {"C01_ResultWellFormed"} ELSE {})
                      \cup (IF pc = "rendered" /\ (paginated # (~Eff(opts).skip /\ Eff(opts).url))
                            THEN {"C13_PaginationRunsIffAsked"} ELSE {})
                      \cup (IF ~paginated /\ ~o.pagempty THEN {"C13_PaginationEmptyWhenSkipped"} ELSE {})
                      \cup (IF (Eff(opts).url /\ o.urlfield # "same") \/ (~Eff(opts).url /\ o.urlfield # "empty")
                            THEN {"C13_ResultURL"} ELSE {})
                      \cup (IF o.wc # wc THEN {"C20_ResultWordCount"} ELSE {})
           \* C09: with only text blocks retained and no title, WordCount is the number of words of the text.
           \* The class tells the one recorded finding apart from every other disagreement: WordCount counts the words
           \* of each text node, so a word that continues across an inline element (10<sup>th</sup>) is counted once
           \* per text node - the difference is then exactly the number of such joints in the text view.
           c09 == IF ~isErr /\ o.onlytxt /\ o.ntitle = 0 /\ o.wc # o.txtwc THEN {"C09_WordCountMatchesText"} ELSE {}
           c09class == IF ~isErr /\ o.glued > 0 /\ o.wc - o.txtwc = o.glued
                       THEN "word-continues-across-inline-elements" ELSE entry \o "/" \o root
           b2 == (IF ~o.treesame THEN {"C10_TreeUntouched"} ELSE {})
                 \cup (IF ~o.optssame THEN {"C10_OptionsUntouched"} ELSE {})
           \* ---- group rules: most specific first
           v  == <<o.err, o.core, o.pag, o.urldig>>
           b3 == IF Seen(KExact) /\ ValOf(KExact) # v THEN {"C11_RepeatedCallsAgree"}
                 ELSE IF Seen(KOpts) /\ ValOf(KOpts) # v THEN {"C11_EntryPointsAgree"}
                 ELSE IF ~isErr /\ Seen(KCore) /\ ValOf(KCore) # o.core THEN {"C13_OptionsDontChangeCore"}
                 ELSE IF ~isErr /\ paginated /\ Seen(KPag) /\ ValOf(KPag) # o.pag THEN {"C13_LogDoesNotChangePagination"}
                 ELSE {}
           \* ---- C20: page P, P with the marked subtrees deleted (D), P with the markers renamed (R);
           \* the triple is complete when R returns
           KView(x) == <<"view", x>>
           b4 == IF variant = "R" /\ ~isErr /\ Seen(KView("P")) /\ Seen(KView("D"))
                 THEN LET vP == ValOf(KView("P"))  vD == ValOf(KView("D"))  vR == <<o.view, o.wc>>
                      IN  IF vD[2] >= Threshold
                          THEN (IF vP # vD THEN {"C20_PrunedWhenEnoughRemains"} ELSE {})
                          ELSE (IF vP # vR THEN {"C20_MarkersIgnoredOtherwise"} ELSE {})
                 ELSE {}
           b  == b1 \cup b2 \cup (IF variant = "" THEN b3 ELSE {}) \cup b4
           add == {[k |-> KExact, v |-> v], [k |-> KOpts, v |-> v]}
                  \cup (IF ~isErr THEN {[k |-> KCore, v |-> o.core]} ELSE {})
                  \cup (IF ~isErr /\ paginated THEN {[k |-> KPag, v |-> o.pag]} ELSE {})
                  \cup (IF ~isErr /\ variant # "" THEN {[k |-> <<"view", variant>>, v |-> <<o.view, o.wc>>]} ELSE {})
       IN  /\ pc' = "returned"
           /\ result' = [result EXCEPT !.err = isErr]
           /\ mem' = mem \cup {m \in add : ~Seen(m.k)}
           /\ bad' = bad \cup b \cup c09 /\ Report(b)
           /\ \A name \in c09 : PrintT(<<"@@BAD", ToJson([run |-> run, inv |-> name, class |-> c09class])>>)
    /\ UNCHANGED <<root, opts, passes, flags, wc1, wc, nfilt, paginated, callerWrites, run, grp, prop, entry, urlid, bytes, docid, variant>>

TCrash == /\ (IsEvent("Panic") \/ IsEvent("Hang")) /\ Mine
          /\ pc' = "crashed"
          /\ PrintT(<<"@@CRASH", ToJson([run |-> run, ev |-> Trace[l].ev, class |-> entry \o "/" \o root])>>)
          /\ UNCHANGED <<root, opts, passes, flags, wc1, wc, nfilt, paginated, result, callerWrites, run, grp, prop, entry, urlid, bytes, docid, variant, mem, bad>>

TNext == TCall \/ TRootCheck \/ TPass \/ TDocFilter \/ TRendered \/ TPaginated \/ TReturn \/ TCrash
TraceSpec == TInit /\ [][TNext]_tvars

NoViolation == bad = {}

TraceAccepted ==
    LET d == TLCGet("stats").diameter
    IN  IF d - 1 = Len(Trace) THEN PrintT(<<"@@ACCEPTED", Len(Trace)>>)
        ELSE PrintT(<<"@@REJECTED-AT-LINE", d>>) /\ FALSE
=============================================================================
