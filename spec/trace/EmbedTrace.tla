----------------------------- MODULE EmbedTrace -----------------------------
(***************************************************************************)
(* Trace specification for C19.  Each run: Call (the abstract case f the   *)
(* page was built from, the concrete tokens, the page host, and the source *)
(* m as the harness MEASURED it on the parsed tree: carrier facts and the  *)
(* source URL split lexically into RFC 3986 components) then Return (the   *)
(* census of embed placeholders in Result.Node as (type, id), the number   *)
(* of iframes / objects outside placeholders, tables and captions, whether *)
(* the carrier's marker shows up).                                         *)
(*                                                                         *)
(* The run is a behaviour of the Embed machine: Call = Init with the       *)
(* logged case, Return = Decide bound to the observed placeholder.         *)
(* Verdict predicates, with E = Expected(m, pageHost) computed from the    *)
(* MEASURED source:                                                        *)
(*   C19_PlaceholderIffAllowed  a placeholder exists iff E # None          *)
(*   C19_TypeAndId              it is the only one and equals E            *)
(*   C19_NoForeignFrames        E = None: no iframe / object outside       *)
(*                              placeholders, and nothing of the frame     *)
(*                              (its marker) anywhere in the output        *)
(* Fidelity (never a violation): the measured source equals Build(f) with  *)
(* the tokens replaced.  Sources in a zone where the statement is silent   *)
(* (Embed!Silent) are not judged.                                          *)
(***************************************************************************)
EXTENDS Embed, IOUtils

Trace == ndJsonDeserialize(IOEnv.TRACE_FILE)

VARIABLES l, pc, run, m, bad
tvars == <<vars, l, pc, run, m, bad>>

IsEvent(e) == l <= Len(Trace) /\ Trace[l].ev = e /\ l' = l + 1

TInit == /\ l = 1 /\ pc = "idle" /\ run = 0 /\ bad = {}
         /\ m = [tag |-> "none"]
         /\ p = [carrier |-> "none"] /\ pg = <<>> /\ i = 0 /\ result = None

\* Build(f) with the tokens replaced by the concrete strings of this run
Conc(s, tok) == IF s = "ID" THEN tok.ID ELSE IF s = "TID" THEN tok.TID ELSE IF s = "ROOT" THEN tok.ROOT ELSE s
ConcSeq(q, tok) == [k \in 1..Len(q) |-> Conc(q[k], tok)]
MeasuredAsBuilt(g, tok, mm) ==
    LET b == Build(g) IN
    /\ mm.tag = b.tag /\ mm.via = b.via /\ mm.tid = Conc(b.tid, tok)
    /\ (mm.tag = "iframe" \/ mm.cls = b.cls)       \* a tweet class on an iframe is noise the driver adds (no rule reads it)
    /\ mm.url.scheme = b.url.scheme /\ mm.url.auth = b.url.auth /\ mm.url.lead = b.url.lead
    /\ mm.url.user = b.url.user /\ mm.url.host = b.url.host
    /\ mm.url.path = ConcSeq(b.url.path, tok)
    /\ mm.url.query = b.url.query /\ mm.url.frag = b.url.frag

Call == /\ IsEvent("Call")
        /\ pc \in {"idle", "returned", "crashed"}
        /\ pc' = "called"
        /\ run' = Trace[l].run
        /\ p' = Trace[l].f
        /\ pg' = Trace[l].pageHost
        /\ m' = Trace[l].m
        /\ i' = 1 /\ result' = None
        /\ bad' = {}
        /\ (~MeasuredAsBuilt(Trace[l].f, Trace[l].tok, Trace[l].m)) =>
              PrintT(<<"@@DRIFT", ToJson([run |-> Trace[l].run, what |-> "generated source differs from Build(f)",
                                          f |-> Trace[l].f, measured |-> Trace[l].m])>>)

\* coarse class of a failing run: the shape of the host; allow-listed hosts whose URL has a
\* fragment directly after authority/path get a class of their own (one cause, see known findings)
ClassOf == IF m.url.frag /\ ~m.url.query /\ Allowed(ResolvedHost(m.url, pg))
           THEN "fragment-without-query" ELSE p.host

Failed(o) ==
    IF o.err \/ ~o.nodeok \/ Silent(m, pg) THEN {}
    ELSE LET E == Expected(m, pg) IN
         (IF (Len(o.ph) > 0) # (E # None) THEN {"C19_PlaceholderIffAllowed"} ELSE {})
         \cup (IF E # None /\ Len(o.ph) > 0 /\ (Len(o.ph) # 1 \/ o.ph[1] # E) THEN {"C19_TypeAndId"} ELSE {})
         \cup (IF E = None /\ (o.frames > 0 \/ (m.tag \in {"iframe", "object"} /\ o.marker))
               THEN {"C19_NoForeignFrames"} ELSE {})

Return == /\ IsEvent("Return")
          /\ pc = "called"
          /\ Trace[l].run = run
          /\ pc' = "returned"
          /\ LET o == Trace[l].obs IN
               /\ result' = IF Len(o.ph) > 0 THEN o.ph[1] ELSE None
               /\ i' = FirstExt(m, pg, 1)
               /\ bad' = Failed(o)
               /\ \A name \in bad' :
                     PrintT(<<"@@BAD", ToJson([run |-> run, inv |-> name, class |-> ClassOf])>>)
          /\ UNCHANGED <<p, pg, run, m>>

Crash == /\ (IsEvent("Panic") \/ IsEvent("Hang"))
         /\ pc = "called" /\ Trace[l].run = run
         /\ pc' = "crashed"
         /\ PrintT(<<"@@CRASH", ToJson([run |-> run, ev |-> Trace[l].ev])>>)
         /\ UNCHANGED <<vars, run, m, bad>>

TNext == Call \/ Return \/ Crash
TraceSpec == TInit /\ [][TNext]_tvars

NoViolation == bad = {}

TraceAccepted ==
    LET d == TLCGet("stats").diameter
    IN  IF d - 1 = Len(Trace) THEN PrintT(<<"@@ACCEPTED", Len(Trace)>>)
        ELSE PrintT(<<"@@REJECTED-AT-LINE", d>>) /\ FALSE
=============================================================================
