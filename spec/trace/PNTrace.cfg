CONSTANTS
 SortedCandidates = TRUE
INIT TInit
NEXT TNext
CHECK_DEADLOCK FALSE
POSTCONDITION TraceAccepted
