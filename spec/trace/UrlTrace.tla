----------------------------- MODULE UrlTrace -----------------------------
(***************************************************************************)
(* Trace specification for C06.  Each run: Call (the page URL and every    *)
(* URL-carrying attribute value of the parsed source page, split lexically *)
(* into the abstract URL record of UrlResolve) then Return (every URL      *)
(* attribute value of Result.Node outside embed placeholders, and every    *)
(* entry of Result.ContentImages, split the same way).                     *)
(*                                                                         *)
(* The run is a behaviour of the UrlResolve machine: Call = Init with the  *)
(* logged page (base, refs), Return = Rewrite bound to the logged output.  *)
(* An output value is paired with its source value by the marker u<N> both *)
(* carry (an empty value: by element and attribute name).  Predicates:     *)
(*   C06_Absolute             a value whose original is a relative         *)
(*                            reference has scheme http/https and a host   *)
(*   C06_ResolvedAgainstPage  ... and its components equal                 *)
(*                            Resolve(page URL, original)                  *)
(*   C06_PassThroughUnchanged an original of one of the five pass-through  *)
(*                            classes appears unchanged                    *)
(*   C06_ContentImagesAbsolute  the same three demands on ContentImages    *)
(* Fidelity (DRIFT, never a violation): the parsed source values equal the *)
(* model's RefOf/BaseOf for the case; every output value has exactly one   *)
(* source value.                                                           *)
(***************************************************************************)
EXTENDS UrlResolve, IOUtils

Trace == ndJsonDeserialize(IOEnv.TRACE_FILE)

VARIABLES l, pc, run, bad
tvars == <<vars, l, pc, run, bad>>

IsEvent(e) == l <= Len(Trace) /\ Trace[l].ev = e /\ l' = l + 1

NoCase == [base |-> "", carrier |-> "", cls |-> "", n |-> 0, desc |-> "", cls2 |-> "", cls3 |-> ""]
TInit == /\ l = 1 /\ pc = "idle" /\ run = 0 /\ bad = {}
         /\ c = NoCase /\ base = BaseOf("root") /\ refs = <<>> /\ outs = <<>> /\ phase = "source"

\* ---- fidelity of the generated page w.r.t. the model's case
Tested(rs) == {k \in 1..Len(rs) : rs[k].cls # "filler"}
PageAsModelled(p, b, rs) ==
    /\ p.base \in AllBaseIds /\ b = BaseOf(p.base)
    /\ \A k \in Tested(rs) : rs[k].cls \in AllRefClasses /\ rs[k].u = RefOf(rs[k].cls, rs[k].leaf)
    /\ \E k \in Tested(rs) : rs[k].carrier = p.carrier /\ rs[k].cls = p.cls
    /\ Cardinality(Tested(rs)) = p.n

Call == /\ IsEvent("Call")
        /\ pc \in {"idle", "returned", "crashed"}
        /\ pc' = "called"
        /\ run' = Trace[l].run
        /\ c' = Trace[l].p
        /\ base' = Trace[l].base
        /\ refs' = Trace[l].refs
        /\ outs' = <<>> /\ phase' = "source"
        /\ bad' = {}
        /\ (~PageAsModelled(Trace[l].p, Trace[l].base, Trace[l].refs)) =>
              PrintT(<<"@@DRIFT", ToJson([run |-> Trace[l].run, what |-> "generated page differs from the model's case",
                                          p |-> Trace[l].p])>>)

\* ---- pairing an output value with its source value
Sources(o) == {k \in 1..Len(refs) :
                  IF o.m > 0 THEN refs[k].m = o.m
                  ELSE refs[k].m = 0 /\ refs[k].tag = o.tag /\ refs[k].attr = o.attr}
SourceOf(o) == refs[CHOOSE k \in Sources(o) : TRUE]
\* exactly one source value - or several that are the same reference in the same place (a srcset may name one file twice)
Paired(o) == /\ Sources(o) # {}
             /\ \A j, k \in Sources(o) : refs[j].raw = refs[k].raw /\ refs[j].carrier = refs[k].carrier

\* the failed demand (or "" if none) for output value o with source value s
FailedDemand(o, s) ==
    LET r == s.u IN
    IF IsRelative(r)
    THEN IF ~(WebAbsolute(o.u) /\ ~o.u.bad) THEN "C06_Absolute"
         ELSE IF o.u # Resolve(base, r) THEN "C06_ResolvedAgainstPage"
         ELSE ""
    ELSE IF PassThrough(r)
    THEN IF o.raw # s.raw THEN "C06_PassThroughUnchanged" ELSE ""
    ELSE IF IsEmptyRef(r)      \* not judged beyond: untouched, or resolved
    THEN IF o.raw # "" /\ o.u # Resolve(base, r) THEN "C06_ResolvedAgainstPage" ELSE ""
    ELSE ""                    \* outside the classes the statement speaks about (not generated)

ClassOfEntry(s) == s.carrier \o "/" \o s.cls

Failed(o) ==
    IF o.err \/ ~o.nodeok THEN {}
    ELSE {[inv |-> FailedDemand(o.urls[k], SourceOf(o.urls[k])), class |-> ClassOfEntry(SourceOf(o.urls[k]))] :
              k \in {j \in 1..Len(o.urls) : Paired(o.urls[j]) /\ FailedDemand(o.urls[j], SourceOf(o.urls[j])) # ""}}
         \cup
         {[inv |-> "C06_ContentImagesAbsolute", class |-> ClassOfEntry(SourceOf(o.images[k]))] :
              k \in {j \in 1..Len(o.images) : Paired(o.images[j]) /\ FailedDemand(o.images[j], SourceOf(o.images[j])) # ""}}

Unpaired(o) == {k \in 1..Len(o.urls) : ~Paired(o.urls[k])} \cup {Len(o.urls) + k : k \in {j \in 1..Len(o.images) : ~Paired(o.images[j])}}

Return == /\ IsEvent("Return")
          /\ pc = "called"
          /\ Trace[l].run = run
          /\ pc' = "returned"
          /\ LET o == Trace[l].obs IN
               /\ outs' = o.urls /\ phase' = "output"
               /\ bad' = Failed(o)
               /\ \A b \in bad' :
                     PrintT(<<"@@BAD", ToJson([run |-> run, inv |-> b.inv, class |-> b.class])>>)
               /\ (~o.err /\ o.nodeok /\ Unpaired(o) # {}) =>
                     PrintT(<<"@@DRIFT", ToJson([run |-> run, what |-> "output URL without exactly one source value",
                                                 n |-> Cardinality(Unpaired(o))])>>)
          /\ UNCHANGED <<c, base, refs, run>>

Crash == /\ (IsEvent("Panic") \/ IsEvent("Hang"))
         /\ pc = "called" /\ Trace[l].run = run
         /\ pc' = "crashed"
         /\ PrintT(<<"@@CRASH", ToJson([run |-> run, ev |-> Trace[l].ev])>>)
         /\ UNCHANGED <<vars, run, bad>>

TNext == Call \/ Return \/ Crash
TraceSpec == TInit /\ [][TNext]_tvars

NoViolation == bad = {}

TraceAccepted ==
    LET d == TLCGet("stats").diameter
    IN  IF d - 1 = Len(Trace) THEN PrintT(<<"@@ACCEPTED", Len(Trace)>>)
        ELSE PrintT(<<"@@REJECTED-AT-LINE", d>>) /\ FALSE
=============================================================================
