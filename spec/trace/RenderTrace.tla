----------------------------- MODULE RenderTrace -----------------------------
(***************************************************************************)
(* Fidelity binding of Render.tla.  Per run:                               *)
(*   Call    the abstraction `adoc` of the parsed page                     *)
(*   Render  which pass produced the final document, the kinds and content *)
(*           flags of the real element list after the last filter (hook),  *)
(*           and the distilled HTML (Result.Node) as items                 *)
(*   Return                                                                *)
(* The model's element list (Convert!Run on adoc) is rendered with the     *)
(* REAL flags; a difference to the real items is DRIFT.  On the real items *)
(* two mechanism-level predicates are evaluated:                           *)
(*   C02_RenderedOnceInOrder   every source text node occurs at most once, *)
(*                             in document order                            *)
(*   C07_RenderedChains        the list / quote / pre elements open above  *)
(*                             a text node are its chain in the source     *)
(***************************************************************************)
EXTENDS Render, Json, IOUtils

Trace == ndJsonDeserialize(IOEnv.TRACE_FILE)

VARIABLES l, pc, run, adoc, bad
tvars == <<l, pc, run, adoc, bad>>

IsEvent(e) == l <= Len(Trace) /\ Trace[l].ev = e /\ l' = l + 1

Init == l = 1 /\ pc = "idle" /\ run = 0 /\ adoc = << >> /\ bad = {}

Call == /\ IsEvent("Call") /\ pc \in {"idle", "returned", "crashed"}
        /\ pc' = "called" /\ run' = Trace[l].run /\ adoc' = Trace[l].adoc /\ bad' = {}

ClassOf(e) == IF e.t \in {"text", "tag", "table"} THEN e.t ELSE "media"
RealClass(k) == IF k \in {"text", "tag", "table"} THEN k ELSE "media"
Norm(items) == [i \in 1..Len(items) |-> [t |-> items[i].t, k |-> items[i].k, n |-> items[i].n]]
FirstDiff(a, b) == LET S == {i \in 1..(IF Len(a) < Len(b) THEN Len(a) ELSE Len(b)) : a[i] # b[i]}
                   IN  IF S = {} THEN (IF Len(a) < Len(b) THEN Len(a) ELSE Len(b)) + 1 ELSE CHOOSE i \in S : \A j \in S : i <= j

RenderEv ==
    /\ IsEvent("Render") /\ pc = "called" /\ Trace[l].run = run
    /\ LET es    == Run(adoc, Trace[l].skip).elems
           flags == Trace[l].flags
           real  == Norm(Trace[l].items)
           same  == Len(es) = Len(flags) /\ \A i \in 1..Len(es) : ClassOf(es[i]) = RealClass(Trace[l].kinds[i])
           b == (IF ~RenderOnceInOrder(real) THEN {"C02_RenderedOnceInOrder"} ELSE {})
                \cup (IF ~RenderChains(adoc, real) THEN {"C07_RenderedChains"} ELSE {})
       IN  /\ bad' = b
           /\ \A name \in b : PrintT(<<"@@BAD", ToJson([run |-> run, inv |-> name, class |-> "rendered-items"])>>)
           /\ (~same) => PrintT(<<"@@DRIFT", ToJson([run |-> run, what |-> "element list differs from Convert.tla",
                                                     lenModel |-> Len(es), lenReal |-> Len(flags)])>>)
           /\ (same /\ Render(adoc, es, flags) # real) =>
                 LET m == Render(adoc, es, flags)
                     d == FirstDiff(m, real)
                 IN  PrintT(<<"@@DRIFT", ToJson([run |-> run, what |-> "rendered items differ from Render.tla", at |-> d,
                                                 lenModel |-> Len(m), lenReal |-> Len(real),
                                                 model |-> IF d <= Len(m) THEN m[d] ELSE Item("-", "", 0),
                                                 real |-> IF d <= Len(real) THEN real[d] ELSE Item("-", "", 0)])>>)
    /\ UNCHANGED <<pc, run, adoc>>

Return == /\ IsEvent("Return") /\ pc = "called" /\ Trace[l].run = run
          /\ pc' = "returned" /\ UNCHANGED <<run, adoc, bad>>

Crash == /\ (IsEvent("Panic") \/ IsEvent("Hang")) /\ pc = "called" /\ Trace[l].run = run
         /\ pc' = "crashed"
         /\ PrintT(<<"@@CRASH", ToJson([run |-> run, ev |-> Trace[l].ev])>>)
         /\ UNCHANGED <<run, adoc, bad>>

Skip == IsEvent("Skip") /\ UNCHANGED <<pc, run, adoc, bad>>

Next == Call \/ RenderEv \/ Return \/ Crash \/ Skip
TraceSpec == Init /\ [][Next]_tvars
NoViolation == bad = {}

TraceAccepted ==
    LET d == TLCGet("stats").diameter
    IN  IF d - 1 = Len(Trace) THEN PrintT(<<"@@ACCEPTED", Len(Trace)>>)
        ELSE PrintT(<<"@@REJECTED-AT-LINE", d>>) /\ FALSE
=============================================================================
