CONSTANTS
 WcVals = {0}
 Threshold = 500
INIT TInit
NEXT TNext
CHECK_DEADLOCK FALSE
POSTCONDITION TraceAccepted
