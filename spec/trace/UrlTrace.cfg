CONSTANTS
 BaseIds = {"root"}
 RefClasses = {"rel"}
 Carriers = {"a_para"}
 MaxCand = 1
 FullTuples = FALSE
 Handed = {"text", "table", "image", "figure", "video"}
 Dump = FALSE
INIT TInit
NEXT TNext
CHECK_DEADLOCK FALSE
POSTCONDITION TraceAccepted
