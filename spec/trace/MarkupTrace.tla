----------------------------- MODULE MarkupTrace -----------------------------
(***************************************************************************)
(* Trace specification for C14.  Each run: Call (the parameter record p    *)
(* the page was built from and the "provides" abstraction m the harness    *)
(* measured on the parsed page) then Return (for every MarkupInfo field of *)
(* the real Result: which source's generated value it holds).              *)
(*                                                                         *)
(* The run is a behaviour of the Markup machine: Call = Init with the      *)
(* logged p, Return = ParseOG;ParseSchema;ParseIE;Assemble bound to the    *)
(* observed record.  Verdict predicates, evaluated against the MEASURED    *)
(* abstraction:                                                            *)
(*   C14_FieldFromFirstProvider  every field holds the value of the first  *)
(*                               eligible source providing it, else empty  *)
(*   C14_ArticleWholesale        the article sub-record is exactly that of *)
(*                               the first source that has one             *)
(*   C14_OptOutEmpty             IE_RM_OFF = true: everything empty        *)
(* Fidelity (never a violation): measured abstraction = Abs(p).            *)
(***************************************************************************)
EXTENDS Markup, IOUtils

Trace == ndJsonDeserialize(IOEnv.TRACE_FILE)

VARIABLES l, run, x, bad
tvars == <<vars, l, run, x, bad>>

IsEvent(e) == l <= Len(Trace) /\ Trace[l].ev = e /\ l' = l + 1

NoAbs == [optout |-> FALSE]

TInit == /\ l = 1 /\ run = 0 /\ x = NoAbs /\ bad = {}
         /\ p = [optout |-> "absent"] /\ pc = "idle" /\ acc = <<>> /\ out = NoOut

Call == /\ IsEvent("Call")
        /\ pc \in {"idle", "done", "crashed"}
        /\ pc' = "og"
        /\ run' = Trace[l].run
        /\ p' = Trace[l].p
        /\ x' = Trace[l].m
        /\ acc' = <<>> /\ out' = NoOut /\ bad' = {}
        /\ (Trace[l].m # Abs(Trace[l].p)) =>
              PrintT(<<"@@DRIFT", ToJson([run |-> Trace[l].run, what |-> "measured page differs from Abs(p)",
                                          measured |-> Trace[l].m, model |-> Abs(Trace[l].p)])>>)

\* a list of origins as one origin
ListOrigin(seq) == LET S == {seq[k] : k \in DOMAIN seq}
                   IN  IF S = {} THEN "none" ELSE IF Cardinality(S) = 1 THEN CHOOSE s \in S : TRUE ELSE "mixed"

ObsOut(o) == [f    |-> [f \in Scalar \cup {"images"} |-> IF f = "images" THEN ListOrigin(o.images) ELSE o.f[f]],
              type |-> o.type,
              art  |-> [a \in ArtFields |-> IF a = "authors" THEN ListOrigin(o.art.authors) ELSE o.art[a]]]

FieldOrder == <<"title", "url", "description", "publisher", "copyright", "author", "images">>
BadFields(r) == SelectSeq(FieldOrder, LAMBDA f : ~FieldOK(x, r, f))

\* <<predicate, what>> pairs that fail for the observed record r
Failed(o) ==
    IF o.err THEN {}
    ELSE LET r == ObsOut(o) IN
         IF x.optout THEN (IF r # NoOut THEN {<<"C14_OptOutEmpty", "optout">>} ELSE {})
         ELSE (IF BadFields(r) # <<>> THEN {<<"C14_FieldFromFirstProvider", Head(BadFields(r))>>}
               ELSE IF ~TypeFieldOK(x, r) THEN {<<"C14_FieldFromFirstProvider", "type">>} ELSE {})
              \cup (IF ~ArticleOK(x, r) THEN {<<"C14_ArticleWholesale", "article">>} ELSE {})

Return == /\ IsEvent("Return")
          /\ pc = "og"
          /\ Trace[l].run = run
          /\ pc' = "done"
          /\ LET o == Trace[l].obs IN
               /\ out' = IF o.err THEN out ELSE ObsOut(o)
               /\ acc' = SelectSeq(Sources, LAMBDA s : Eligible(x, s))
               /\ bad' = Failed(o)
               /\ \A b \in bad' :
                     PrintT(<<"@@BAD", ToJson([run |-> run, inv |-> b[1],
                                               class |-> b[2] \o "/" \o p.og.shape \o "/" \o p.schema.shape])>>)
          /\ UNCHANGED <<p, run, x>>

Crash == /\ (IsEvent("Panic") \/ IsEvent("Hang"))
         /\ pc = "og" /\ Trace[l].run = run
         /\ pc' = "crashed"
         /\ PrintT(<<"@@CRASH", ToJson([run |-> run, ev |-> Trace[l].ev])>>)
         /\ UNCHANGED <<p, acc, out, run, x, bad>>

Skip == /\ IsEvent("Skip") /\ UNCHANGED <<vars, run, x, bad>>

TNext == Call \/ Return \/ Crash \/ Skip
TraceSpec == TInit /\ [][TNext]_tvars

NoViolation == bad = {}

TraceAccepted ==
    LET d == TLCGet("stats").diameter
    IN  IF d - 1 = Len(Trace) THEN PrintT(<<"@@ACCEPTED", Len(Trace)>>)
        ELSE PrintT(<<"@@REJECTED-AT-LINE", d>>) /\ FALSE
=============================================================================
