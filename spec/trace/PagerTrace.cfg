CONSTANTS
 MaxN = 12
 Families = {"query"}
 Seps = {"space"}
 Wraps = {"div"}
 Decos = {"plain"}
 Labels = {"none"}
 HrefKinds = {"rel"}
 LabelKinds = {"num"}
 MaxAnchors = 1
 Mode = "conv"
 Dump = FALSE
 DiffUsesWholeNumbers = TRUE
INIT TInit
NEXT TNext
CHECK_DEADLOCK FALSE
POSTCONDITION TraceAccepted
