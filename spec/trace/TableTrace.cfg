CONSTANTS
 RowVals = {1}
 ColVals = {1}
 Roles = {"none"}
 DescRoles = {"none"}
 Headers = {"none"}
 CellAttrs = {"none"}
 Objects = {"none"}
 Dump = FALSE
INIT TInit
NEXT TNext
CHECK_DEADLOCK FALSE
POSTCONDITION TraceAccepted
