------------------------------ MODULE ConcTrace ------------------------------
(***************************************************************************)
(* Trace specification for C12.  The trace comes from the concurrent       *)
(* driver (harness/race.go, built with -race): one ConcCall event per call *)
(* made by a goroutine while other goroutines were calling Apply (distinct *)
(* documents, one shared tree, a shared Options value, all log flags),     *)
(* followed by the report events appended by the orchestrator:             *)
(*   RaceReport [count]  - number of reports of Go's race detector         *)
(*   StaticScan [writes] - writes to package-level variables outside init  *)
(* Each ConcCall is a completed call of Concurrent.tla: its result must    *)
(* equal the result of the same call run alone (SoloEquivalence) and the   *)
(* shared tree must be unchanged (NoSharedWrite, observed).                *)
(***************************************************************************)
EXTENDS Integers, Sequences, FiniteSets, TLC, Json, IOUtils

Trace == ndJsonDeserialize(IOEnv.TRACE_FILE)

VARIABLES l, calls, bad
vars == <<l, calls, bad>>

IsEvent(e) == l <= Len(Trace) /\ Trace[l].ev = e /\ l' = l + 1
Report(run, names, cls) ==
    \A name \in names : PrintT(<<"@@BAD", ToJson([run |-> run, inv |-> name, class |-> cls])>>)

Init == l = 1 /\ calls = 0 /\ bad = {}

ConcCall ==
    /\ IsEvent("ConcCall")
    /\ LET e == Trace[l]
           b == (IF ~e.same \/ e.panicked THEN {"C12_SoloEquivalence"} ELSE {})
                \cup (IF ~e.treesame THEN {"C12_SharedTreeUntouched"} ELSE {})
       IN  bad' = bad \cup b /\ Report(e.run, b, e.mode)
    /\ calls' = calls + 1

RaceReport ==
    /\ IsEvent("RaceReport")
    /\ LET b == IF Trace[l].count > 0 THEN {"C12_NoDataRace"} ELSE {}
       IN  bad' = bad \cup b /\ Report(0, b, Trace[l].where)
    /\ UNCHANGED calls

StaticScan ==
    /\ IsEvent("StaticScan")
    /\ LET b == IF Trace[l].writes > 0 THEN {"C12_GlobalsWrittenOnlyAtInit"} ELSE {}
       IN  bad' = bad \cup b /\ Report(0, b, Trace[l].first)
    /\ UNCHANGED calls

Next == ConcCall \/ RaceReport \/ StaticScan
TraceSpec == Init /\ [][Next]_vars
NoViolation == bad = {}

TraceAccepted ==
    LET d == TLCGet("stats").diameter
    IN  IF d - 1 = Len(Trace) THEN PrintT(<<"@@ACCEPTED", Len(Trace)>>)
        ELSE PrintT(<<"@@REJECTED-AT-LINE", d>>) /\ FALSE
=============================================================================
