------------------------------ MODULE PNTrace ------------------------------
(***************************************************************************)
(* Trace specification binding spec/PageNumber.tla to the real page-number *)
(* finder.  One run:                                                       *)
(*   Call     items and page URL of the rendered pager  (= Init ; Scan)    *)
(*   PNGroup  a monotonic group as DetectParamInfo receives it (hook)      *)
(*            (= EndGroup of the previous group ; BeginGroup)              *)
(*   PNCand   one candidate pattern after its evaluation (hook), in the    *)
(*            order the real code evaluated them            (= EvalCand)   *)
(*   PNBest   what DetectParamInfo returns (hook)                          *)
(*   Return   NextPage / PrevPage of the first call and the set of         *)
(*            distinct answers of all repetitions           (= Finish)     *)
(* Every URL is mapped to the abstract URL records by the harness.         *)
(*                                                                         *)
(* FIDELITY (DRIFT, never a violation): the groups, the ascending list,    *)
(* every candidate's evaluation, the best candidate and the answer of the  *)
(* model equal what the real code logged.  After a difference the replay   *)
(* continues from the LOGGED value, so one difference is reported once.    *)
(*                                                                         *)
(* VERDICTS (evaluated on what the real code returned):                    *)
(*   C11_RepeatedCallsAgree    all repetitions gave the same answer        *)
(*   C16_NextIsALinkOfThePager / C16_PrevIsALinkOfThePager                 *)
(*                             the answer is empty or the URL of one of    *)
(*                             the pager's links - never a place holder,   *)
(*                             never a made-up URL                         *)
(*   C17_NextIsPageAfter / C17_PrevIsPageBefore                            *)
(*                             for a conventional pager the exact links    *)
(***************************************************************************)
EXTENDS PageNumber, Json, IOUtils

Trace == ndJsonDeserialize(IOEnv.TRACE_FILE)

VARIABLES l, run, bad, ng
tvars == <<vars, l, run, bad, ng>>

IsEvent(e) == l <= Len(Trace) /\ Trace[l].ev = e /\ l' = l + 1

TInit == /\ l = 1 /\ run = 0 /\ bad = {} /\ ng = 0
         /\ items = <<>> /\ doc = NoURL /\ pc = "idle" /\ groups = <<>> /\ gi = 0 /\ asc = <<>> /\ todo = {}
         /\ gstate = D0 /\ dstate = D0 /\ answer = NoAnswer

Drift(what, logged, model) ==
    PrintT(<<"@@DRIFT", ToJson([run |-> run, what |-> what, logged |-> logged, model |-> model])>>)

Call == /\ IsEvent("Call") /\ pc \in {"idle", "done", "crashed"}
        /\ run' = Trace[l].run /\ items' = Trace[l].items /\ doc' = Trace[l].doc
        /\ groups' = Groups(Trace[l].items) /\ gi' = 1 /\ pc' = "group"
        /\ asc' = <<>> /\ todo' = {} /\ gstate' = D0 /\ dstate' = D0 /\ answer' = NoAnswer /\ bad' = {} /\ ng' = 0

\* the overall state once the group being evaluated is closed (EndGroup)
Closed == IF pc = "cands" /\ gstate.best.some THEN Update(dstate, gstate.best, gstate.multi) ELSE dstate

PNGroup ==
    /\ IsEvent("PNGroup") /\ pc \in {"group", "cands"} /\ Trace[l].run = run
    /\ LET g == [list |-> Trace[l].list, sign |-> Trace[l].sign]
           a == Ascending(g, doc)
       IN  /\ ng' = ng + 1
           /\ (ng + 1 > Len(groups) \/ groups[ng + 1] # g) =>
                 Drift("group", g, IF ng + 1 > Len(groups) THEN <<>> ELSE groups[ng + 1])
           /\ dstate' = Closed
           /\ gi' = ng + 1
           /\ IF a = <<>> THEN pc' = "group" /\ asc' = <<>> /\ todo' = {} /\ gstate' = D0
              ELSE pc' = "cands" /\ asc' = a /\ todo' = Candidates(a) /\ gstate' = D0
    /\ UNCHANGED <<items, doc, groups, answer, run, bad>>

PNCand ==
    /\ IsEvent("PNCand") /\ pc \in {"group", "cands"} /\ Trace[l].run = run
    /\ LET p == Trace[l].pat
           r == Trace[l].result
       IN  IF pc # "cands" \/ p \notin todo
           THEN /\ Drift("candidate not expected", p, todo)
                /\ gstate' = IF r.some THEN Update(gstate, r, FALSE) ELSE gstate
                /\ UNCHANGED todo
           ELSE LET m == EvalOne(p, asc, doc, dstate.best) IN
                \* esc: the URLs of the run carry a percent-escape. The pattern strings of the code are unescaped while its
                \* page infos are escaped, so the first-page heuristics (IsPagingURL of the first page / of the page URL)
                \* never fire there - a deviation the model does not carry; the verdicts below do not depend on it.
                /\ (m # r /\ ~Trace[l].esc) => Drift("evaluation", [pat |-> p, result |-> r, asc |-> asc], m)
                /\ gstate' = Update(gstate, r, FALSE)
                /\ todo' = todo \ {p}
    /\ pc' = "cands"
    /\ UNCHANGED <<items, doc, groups, gi, asc, dstate, answer, run, bad, ng>>

PNBest ==
    /\ IsEvent("PNBest") /\ pc \in {"group", "cands"} /\ Trace[l].run = run
    /\ LET r == Trace[l].result
           d == Closed
           m == IF d.best.some THEN [d.best EXCEPT !.next = NextOf(d.best, doc)] ELSE None
       IN  /\ (todo # {}) => Drift("candidates not evaluated", [todo |-> todo, items |-> items, doc |-> doc, asc |-> asc], {})
           /\ (ng # Len(groups)) => Drift("groups not seen", ng, Len(groups))
           /\ (m # r /\ ~Trace[l].esc) => Drift("best", r, m)
           /\ dstate' = [best |-> r, multi |-> Trace[l].multi]
    /\ pc' = "best" /\ todo' = {}
    /\ UNCHANGED <<items, doc, groups, gi, asc, gstate, answer, run, bad, ng>>

\* ---- verdicts ----------------------------------------------------------------
IsConventional ==
    /\ doc.k \in {"one", "file", "q"} /\ Len(items) >= 2 /\ doc.y \in 1..Len(items)
    /\ \A i \in 1..Len(items) : items[i] = [t |-> "num", n |-> i, u |-> IF i = doc.y THEN NoURL ELSE [doc EXCEPT !.y = i]]

Failed(o) ==
    IF o.err THEN {}
    ELSE (IF Len(o.answers) # 1 THEN {"C11_RepeatedCallsAgree"} ELSE {})
         \cup (IF o.next \notin LinkURLs(items) \cup {NoURL} THEN {"C16_NextIsALinkOfThePager"} ELSE {})
         \cup (IF o.prev \notin LinkURLs(items) \cup {NoURL} THEN {"C16_PrevIsALinkOfThePager"} ELSE {})
         \cup (IF IsConventional /\ o.next # (IF doc.y < Len(items) THEN [doc EXCEPT !.y = doc.y + 1] ELSE NoURL)
               THEN {"C17_NextIsPageAfter"} ELSE {})
         \cup (IF IsConventional /\ o.prev # (IF doc.y > 1 THEN [doc EXCEPT !.y = doc.y - 1] ELSE NoURL)
               THEN {"C17_PrevIsPageBefore"} ELSE {})

Family == LET S == {items[i].u.k : i \in 1..Len(items)} \cap {"grid", "one", "file", "q", "q2"}
          IN  IF S = {} THEN "none" ELSE CHOOSE f \in S : TRUE
Class(name, o) ==
    "pn:" \o Family \o ":" \o
    (IF name = "C11_RepeatedCallsAgree" THEN "answers-differ"
     ELSE IF name = "C16_NextIsALinkOfThePager" THEN o.next.k
     ELSE IF name = "C16_PrevIsALinkOfThePager" THEN o.prev.k
     ELSE "conventional")

Return ==
    /\ IsEvent("Return") /\ pc \in {"group", "cands", "best"} /\ Trace[l].run = run
    /\ LET o == Trace[l].obs
           d == IF pc = "best" THEN dstate ELSE Closed
           m == Answer(d, doc)
       IN  /\ answer' = [next |-> o.next, prev |-> o.prev]
           /\ (~o.err /\ pc = "best" /\ m # [next |-> o.next, prev |-> o.prev]) => Drift("answer", [next |-> o.next, prev |-> o.prev], m)
           /\ (~o.err /\ pc # "best") => Drift("no PNBest event", pc, "best")
           /\ bad' = Failed(o)
           /\ \A name \in bad' : PrintT(<<"@@BAD", ToJson([run |-> run, inv |-> name, class |-> Class(name, o)])>>)
    /\ pc' = "done"
    /\ UNCHANGED <<items, doc, groups, gi, asc, todo, gstate, dstate, run, ng>>

Crash == /\ (IsEvent("Panic") \/ IsEvent("Hang")) /\ pc \in {"group", "cands", "best"} /\ Trace[l].run = run
         /\ pc' = "crashed"
         /\ PrintT(<<"@@CRASH", ToJson([run |-> run, ev |-> Trace[l].ev])>>)
         /\ UNCHANGED <<items, doc, groups, gi, asc, todo, gstate, dstate, answer, run, bad, ng>>

Skip == IsEvent("Skip") /\ UNCHANGED <<vars, run, bad, ng>>

TNext == Call \/ PNGroup \/ PNCand \/ PNBest \/ Return \/ Crash \/ Skip
TraceSpec == TInit /\ [][TNext]_tvars
NoViolation == bad = {}

TraceAccepted ==
    LET d == TLCGet("stats").diameter
    IN  IF d - 1 = Len(Trace) THEN PrintT(<<"@@ACCEPTED", Len(Trace)>>)
        ELSE PrintT(<<"@@REJECTED-AT-LINE", d>>) /\ FALSE
=============================================================================
