CONSTANTS
 OGShapes = {"none"}
 SCShapes = {"none"}
 Pats = {"A"}
 OptOuts = {"absent"}
 Orders = {0}
 Rels = {"none"}
 Dump = FALSE
INIT TInit
NEXT TNext
CHECK_DEADLOCK FALSE
POSTCONDITION TraceAccepted
