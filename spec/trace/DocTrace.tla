------------------------------ MODULE DocTrace ------------------------------
(***************************************************************************)
(* Trace specification for calls on article-like pages (properties C02,    *)
(* C03, C04, C05, C07, C08, C09).  The trace is the ndjson file written by  *)
(* harness/vdrive from runs of the REAL code: per run one Call event       *)
(* (reference abstraction of the source tree + options) followed by one    *)
(* Return event (projection of the Result), or Panic / Hang.  Runs are     *)
(* concatenated; Call re-initialises the per-run state (TraceReset).       *)
(*                                                                         *)
(* A run is a behaviour  idle -Call-> called -Return-> returned  of the    *)
(* single-call machine of Distiller.tla seen from outside.  At Return the  *)
(* property predicates of DocProps are evaluated on (src, obs); the names  *)
(* of the failed ones are kept in `bad` (INVARIANT NoViolation in strict   *)
(* mode) and printed as @@BAD lines for the orchestrator, which reproduces *)
(* each in a fresh process before reporting anything.                      *)
(***************************************************************************)
EXTENDS DocProps, DocFilters, TLC, Json, IOUtils

Trace == ndJsonDeserialize(IOEnv.TRACE_FILE)

VARIABLES l,      \* next trace line
          pc,     \* "idle" | "called" | "returned" | "crashed"
          run,    \* id of the current run
          prop,   \* property the run was generated for
          src,    \* reference abstraction of the current run's source
          obs,    \* observation of the current run (after Return)
          bad     \* names of the property predicates that failed in the current run
vars == <<l, pc, run, prop, src, obs, bad>>

NoObs == [err |-> TRUE]

\* which predicates are evaluated for runs generated for property p
PredsOf(p) ==
    CASE p = "C02" -> {"C02_NothingInvented", "C02_OnlyVisibleText", "C02_OrderKeptOnce", "C02_BlockTextsOnceInOrder"}
      [] p = "C03" -> {"C03_ParaAllOrNothing", "C03_BlocksNeverSplit", "C03_TextFlagsFollowBlocks"}
      [] p = "C04" -> {"C04_NoLeakInText", "C04_NoLeakInHtml"}
      [] p = "C05" -> {"C05_NoScriptStyleElements", "C05_NoHandlers", "C05_NoIdClassStyle", "C05_NoForeignData"}
      [] p = "C07" -> {"C07_ChainsPreserved", "C07_TableWhole", "C07_TagPairContentIffEnclosesContent", "C07_TagsBalanced"}
      [] p = "C08" -> {"C08_MediaFollowText", "C08_AtMostOneLead", "C08_FilterOrder", "C08_RelevantFollowsText",
                       "C08_LeadImagePromotesAtMostOne"}
      [] p = "C09" -> {"C09_TextEqualsHtml", "C09_ImagesFromHtml", "C09_WordCount"}
      [] OTHER     -> {}

\* predicates evaluated on the hook-recorded element lists (action Filters), not on the observation
ElementListPreds == {"C07_TagPairContentIffEnclosesContent", "C07_TagsBalanced", "C08_FilterOrder",
                     "C08_RelevantFollowsText", "C08_LeadImagePromotesAtMostOne",
                     "C03_BlocksNeverSplit", "C03_TextFlagsFollowBlocks", "C02_BlockTextsOnceInOrder"}

Holds(name, s, o) ==
    CASE name = "C02_NothingInvented"       -> C02_NothingInvented(s, o)
      [] name = "C02_OnlyVisibleText"       -> C02_OnlyVisibleText(s, o)
      [] name = "C02_OrderKeptOnce"         -> C02_OrderKeptOnce(s, o)
      [] name = "C03_ParaAllOrNothing"      -> C03_ParaAllOrNothing(s, o)
      [] name = "C04_NoLeakInText"          -> C04_NoLeakInText(s, o)
      [] name = "C04_NoLeakInHtml"          -> C04_NoLeakInHtml(s, o)
      [] name = "C05_NoScriptStyleElements" -> C05_NoScriptStyleElements(s, o)
      [] name = "C05_NoHandlers"            -> C05_NoHandlers(s, o)
      [] name = "C05_NoIdClassStyle"        -> C05_NoIdClassStyle(s, o)
      [] name = "C05_NoForeignData"         -> C05_NoForeignData(s, o)
      [] name = "C07_ChainsPreserved"       -> C07_ChainsPreserved(s, o)
      [] name = "C07_TableWhole"            -> C07_TableWhole(s, o)
      [] name = "C08_MediaFollowText"       -> C08_MediaFollowText(s, o)
      [] name = "C08_AtMostOneLead"         -> C08_AtMostOneLead(s, o)
      [] name = "C09_TextEqualsHtml"        -> C09_TextEqualsHtml(s, o)
      [] name = "C09_ImagesFromHtml"        -> C09_ImagesFromHtml(s, o)
      [] name = "C09_WordCount"             -> C09_WordCount(s, o)

\* a coarse class of the failure, so that a recorded known finding does not hide
\* a different violation of the same predicate
Class(name, s, o) ==
    CASE name = "C09_TextEqualsHtml" /\ TextEqualsHtmlOutsidePlaceholders(s, o) /\ o.ph # <<>>
              -> "embed-placeholder-words-missing-from-text-view"
      [] name = "C09_WordCount" /\ o.glued > 0 /\ o.wc - o.txtwc = o.glued
              -> "word-continues-across-inline-elements"      \* the word counter counts every text node on its own
      [] name = "C05_NoScriptStyleElements" /\ o.census.script = o.census.ph_script /\ o.census.style = 0
              -> "script-inside-embed-placeholder"
      [] OTHER -> "other"

Failed(p, s, o) ==
    IF o.err \/ ~o.nodeok THEN {}      \* nothing was produced: no observation to judge here (C01)
    ELSE {name \in PredsOf(p) \ ElementListPreds : ~Holds(name, s, o)}

IsEvent(e) == l <= Len(Trace) /\ Trace[l].ev = e /\ l' = l + 1

Init == l = 1 /\ pc = "idle" /\ run = 0 /\ prop = "" /\ src = <<>> /\ obs = NoObs /\ bad = {}

\* TraceReset + Call
Call == /\ IsEvent("Call")
        /\ pc \in {"idle", "returned", "crashed"}
        /\ pc' = "called"
        /\ run' = Trace[l].run
        /\ prop' = Trace[l].prop
        /\ src' = Trace[l].src
        /\ obs' = NoObs
        /\ bad' = {}

Return == /\ IsEvent("Return")
          /\ pc = "called"
          /\ Trace[l].run = run
          /\ pc' = "returned"
          /\ obs' = Trace[l].obs
          /\ bad' = bad \cup Failed(prop, src, Trace[l].obs)
          /\ \A name \in Failed(prop, src, Trace[l].obs) :
                PrintT(<<"@@BAD", ToJson([run |-> run, inv |-> name, class |-> Class(name, src, Trace[l].obs)])>>)
          /\ UNCHANGED <<run, prop, src>>

\* the element list before the document filters and after each of them, as recorded by the hooks:
\* replayed through DocFilters.tla (C08: Relevant / LeadImage, C07: Nested)
FilterFailures(e) ==
    (IF e.order # <<"RelevantElements", "LeadImage", "NestedElementRetainer">> THEN {"C08_FilterOrder"} ELSE {})
    \cup (IF ~MediaFollowsText(e.before, e.rel) THEN {"C08_RelevantFollowsText"} ELSE {})
    \cup (IF ~LeadImageMay(e.rel, e.lead) THEN {"C08_LeadImagePromotesAtMostOne"} ELSE {})
    \cup (IF Balanced(e.lead) /\ ~(PairContentIffEnclosesContent(e.lead, e.nested) /\ NonTagsUntouched(e.lead, e.nested))
          THEN {"C07_TagPairContentIffEnclosesContent"} ELSE {})
    \cup (IF ~Balanced(e.before) THEN {"C07_TagsBalanced"} ELSE {})

Filters == /\ IsEvent("Filters")
           /\ pc = "called"
           /\ Trace[l].run = run
           /\ LET e == Trace[l]
                  b == {n \in FilterFailures(e) : \E q \in PredsOf(prop) : q = n}
              IN  /\ bad' = bad \cup b
                  /\ \A name \in b : PrintT(<<"@@BAD", ToJson([run |-> run, inv |-> name, class |-> "element-list"])>>)
                  /\ (Relevant(e.before) # e.rel \/ (Balanced(e.lead) /\ Nested(e.lead) # e.nested)) =>
                        PrintT(<<"@@DRIFT", ToJson([run |-> run, what |-> "document filters differ from DocFilters.tla"])>>)
           /\ UNCHANGED <<pc, run, prop, src, obs>>

\* the text blocks after every text filter of the last pass, as recorded by the hooks, checked against
\* spec/TextBlocks.tla: no filter splits a block or shuffles texts, ApplyToModel copies the block flags
TB == INSTANCE TextBlocks
BlockFailures(e) ==
    LET n == Len(e.steps) IN
    (IF \E i \in 1..n : ~TB!WellFormed(e.steps[i].blocks) THEN {"C02_BlockTextsOnceInOrder"} ELSE {})
    \cup (IF \E i \in 1..(n - 1) : TB!WellFormed(e.steps[i].blocks) /\ ~TB!Covers(e.steps[i].blocks, e.steps[i + 1].blocks)
          THEN {"C03_BlocksNeverSplit"} ELSE {})
    \cup (IF n > 0 /\ \E t \in 1..Len(e.flags) : e.flags[t] # TB!TextFlag(e.steps[n].blocks, t - 1)
          THEN {"C03_TextFlagsFollowBlocks"} ELSE {})

PipelineNames == <<"Start", "Classification complete", "Ignore strictly not content blocks",
                   "Cross headings SimilarSiblingContentExpansion", "Mixed tags SimilarSiblingContentExpansion",
                   "HeadingFusion", "BlockProximityFusion for distance=1", "BlockFilter keep title",
                   "BlockProximityFusion for same level content-only", "Keep largest block", "Expand title to content">>

Blocks == /\ IsEvent("Blocks")
          /\ pc = "called"
          /\ Trace[l].run = run
          /\ LET e == Trace[l]
                 b == {n \in BlockFailures(e) : \E q \in PredsOf(prop) : q = n}
             IN  /\ bad' = bad \cup b
                 /\ \A name \in b : PrintT(<<"@@BAD", ToJson([run |-> run, inv |-> name, class |-> "text-blocks"])>>)
                 /\ (Len(e.steps) < Len(PipelineNames)
                       \/ \E i \in 1..Len(PipelineNames) : e.steps[i].name # PipelineNames[i]) =>
                       PrintT(<<"@@DRIFT", ToJson([run |-> run, what |-> "text filter pipeline differs from the recorded order",
                                                   names |-> [i \in 1..Len(e.steps) |-> e.steps[i].name]])>>)
          /\ UNCHANGED <<pc, run, prop, src, obs>>

\* the call did not return a result: not a behaviour of a total machine
Crash == /\ (IsEvent("Panic") \/ IsEvent("Hang"))
         /\ pc = "called"
         /\ Trace[l].run = run
         /\ pc' = "crashed"
         /\ PrintT(<<"@@CRASH", ToJson([run |-> run, ev |-> Trace[l].ev])>>)
         /\ UNCHANGED <<run, prop, src, obs, bad>>

SkipRun == /\ IsEvent("Skip")
           /\ pc \in {"idle", "returned", "crashed"}
           /\ UNCHANGED <<pc, run, prop, src, obs, bad>>

Next == Call \/ Filters \/ Blocks \/ Return \/ Crash \/ SkipRun

TraceSpec == Init /\ [][Next]_vars

\* strict mode: every predicate holds on every observed run
NoViolation == bad = {}

\* the whole trace was consumed (one state per line plus the initial state)
TraceAccepted ==
    LET d == TLCGet("stats").diameter
    IN  IF d - 1 = Len(Trace) THEN PrintT(<<"@@ACCEPTED", Len(Trace)>>)
        ELSE PrintT(<<"@@REJECTED-AT-LINE", d>>) /\ FALSE
=============================================================================
