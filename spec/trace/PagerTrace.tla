----------------------------- MODULE PagerTrace -----------------------------
(***************************************************************************)
(* Trace specification for C16 and C17: per run Call (the pager case c as  *)
(* generated from Pager.tla) and Return (NextPage / PrevPage of the real   *)
(* call decoded to page indexes and lexical link facts).                   *)
(***************************************************************************)
EXTENDS Pager, PrevNext, IOUtils

Trace == ndJsonDeserialize(IOEnv.TRACE_FILE)

VARIABLES l, pc, run, prop, bad
tvars == <<vars, l, pc, run, prop, bad>>

IsEvent(e) == l <= Len(Trace) /\ Trace[l].ev = e /\ l' = l + 1

TInit == l = 1 /\ pc = "idle" /\ run = 0 /\ prop = "" /\ bad = {} /\ c = [kind |-> "none"] /\ done = FALSE

Call == /\ IsEvent("Call") /\ pc \in {"idle", "returned", "crashed"}
        /\ pc' = "called" /\ run' = Trace[l].run /\ prop' = Trace[l].prop /\ c' = Trace[l].c
        /\ bad' = {} /\ UNCHANGED done

Failed(o) ==
    IF o.err THEN {}
    ELSE (IF c.kind = "conv" /\ c.algo = "pagenumber"
          THEN (IF ~C17_NextIsPageAfter(c, o) THEN {"C17_NextIsPageAfter"} ELSE {})
               \cup (IF ~C17_PrevIsPageBefore(c, o) THEN {"C17_PrevIsPageBefore"} ELSE {})
          ELSE {})
         \cup (IF c.kind = "conv" /\ c.algo = "prevnext"
               THEN (IF c.hasnextlink /\ ~C17_NextIsPageAfter(c, o) THEN {"C17_NextLabelledLinkReturned"} ELSE {})
                    \cup (IF c.hasprevlink /\ ~C17_PrevIsPageBefore(c, o) THEN {"C17_PrevLabelledLinkReturned"} ELSE {})
               ELSE {})
         \cup (IF ~C16_NextIsRealSameSiteLink(o) THEN {"C16_NextIsRealSameSiteLink"} ELSE {})
         \cup (IF ~C16_PrevIsRealSameSiteLink(o) THEN {"C16_PrevIsRealSameSiteLink"} ELSE {})

\* a coarse class: which requirement of C16 the returned link misses / which cell of C17
Class(name, o) ==
    IF name \in {"C16_NextIsRealSameSiteLink", "C16_PrevIsRealSameSiteLink"}
    THEN LET u == IF name = "C16_NextIsRealSameSiteLink" THEN o.nextfacts ELSE o.prevfacts
         IN  c.algo \o ":" \o (IF ~u.absolute THEN "not-absolute"
                               ELSE IF ~u.http THEN "not-http"
                               ELSE IF ~u.samehost THEN "off-site"
                               ELSE IF u.trimtarget THEN "anchor-resolved-against-page-url-without-trailing-slash"
                               ELSE "not-an-anchor-target")
    ELSE c.algo \o ":" \o c.fam

\* ---- fidelity of spec/PrevNext.tla: the score the real code gave to every candidate link of a conventional
\* pager equals Score on the facts of PrevNext!ConvLinks, and the link it chose is the one Choose picks
ModelLink(links, s) ==
    LET S == {i \in 1..Len(links) : links[i].target = s.target
                                     /\ (CASE s.kind = "num" -> links[i].tnum > 0 [] s.kind = "next" -> links[i].nextT
                                            [] s.kind = "prev" -> links[i].prevT [] OTHER -> FALSE)}
    IN  IF S = {} THEN 0 ELSE CHOOSE i \in S : TRUE
ScoreDrift(o) ==
    IF c.kind # "conv" \/ c.algo # "prevnext" \/ o.err \/ c.fam \notin Fams THEN << >>
    ELSE LET links == ConvLinks(c.fam, c.n, c.k, c.labels, c.numbered)
             bad1 == {j \in 1..Len(o.scores) :
                         LET i == ModelLink(links, o.scores[j])
                         IN  i = 0 \/ Score(links[i], o.scores[j].next, c.k) # o.scores[j].score}
             cn == Choose(links, TRUE, c.k)
             cp == Choose(links, FALSE, c.k)
             want == [next |-> IF cn = 0 THEN 0 ELSE links[cn].target, prev |-> IF cp = 0 THEN 0 ELSE links[cp].target]
         IN  IF bad1 # {}
             THEN LET j == CHOOSE x \in bad1 : \A y \in bad1 : x <= y
                      i == ModelLink(links, o.scores[j])
                  IN  <<[what |-> "score of a link differs from PrevNext.tla", logged |-> o.scores[j],
                         model |-> IF i = 0 THEN -999 ELSE Score(links[i], o.scores[j].next, c.k)]>>
             ELSE IF want # [next |-> o.next, prev |-> o.prev]
             THEN <<[what |-> "chosen links differ from PrevNext.tla", logged |-> [next |-> o.next, prev |-> o.prev], model |-> want]>>
             ELSE << >>

Return == /\ IsEvent("Return") /\ pc = "called" /\ Trace[l].run = run
          /\ pc' = "returned"
          /\ \A x \in 1..Len(ScoreDrift(Trace[l].obs)) :
                PrintT(<<"@@DRIFT", ToJson([run |-> run, c |-> c, d |-> ScoreDrift(Trace[l].obs)[x]])>>)
          /\ bad' = {n \in Failed(Trace[l].obs) : TRUE}
          /\ \A name \in bad' :
                PrintT(<<"@@BAD", ToJson([run |-> run, inv |-> name, class |-> Class(name, Trace[l].obs)])>>)
          /\ UNCHANGED <<c, done, run, prop>>

Crash == /\ (IsEvent("Panic") \/ IsEvent("Hang")) /\ pc = "called" /\ Trace[l].run = run
         /\ pc' = "crashed"
         /\ PrintT(<<"@@CRASH", ToJson([run |-> run, ev |-> Trace[l].ev])>>)
         /\ UNCHANGED <<c, done, run, prop, bad>>

TNext == Call \/ Return \/ Crash
TraceSpec == TInit /\ [][TNext]_tvars
NoViolation == bad = {}

TraceAccepted ==
    LET d == TLCGet("stats").diameter
    IN  IF d - 1 = Len(Trace) THEN PrintT(<<"@@ACCEPTED", Len(Trace)>>)
        ELSE PrintT(<<"@@REJECTED-AT-LINE", d>>) /\ FALSE
=============================================================================
