----------------------------- MODULE TitleTrace -----------------------------
(***************************************************************************)
(* Trace specification for C15.  Each run of a case:                       *)
(*   Call    the generator's case p (tokens, h1, h2, markup kind) and what  *)
(*           the harness read back from the parsed page: the normalised    *)
(*           <title> text as atoms, the first h1, the markup title, ...     *)
(*   Return  obs: the projection of Result of run A (the page);             *)
(*           rep: run B - the same page plus one block whose text is        *)
(*                exactly the title of run A - with its own source facts.   *)
(*                                                                         *)
(* The run is a behaviour of the Title machine: Call = Pick with the       *)
(* logged page, Return = the composite step Run with the title bound to    *)
(* the observed one.  Verdict predicates (statement of C15), evaluated on  *)
(* run A and on run B:                                                     *)
(*   C15_MarkupWins       MarkupInfo supplies a title => Result.Title is it *)
(*   C15_NoInvention      otherwise Result.Title is the normalised <title>  *)
(*                        text, a contiguous part of it, or the first h1    *)
(*   C15_ExactWhenPlain   <title> of 15..150 characters without " sep " or  *)
(*                        ": " => Result.Title is exactly that text         *)
(*   C15_TitleNotRepeated a block whose text is Result.Title is not in the  *)
(*                        distilled content                                 *)
(* Equality / containment of strings are facts TLC cannot compute; they    *)
(* are logged as booleans and cross-checked against the same relations on  *)
(* the decoded atoms (a difference is DRIFT).  Fidelity (never a           *)
(* violation): observed title = the machine's title; generated page = the  *)
(* page of the model.                                                      *)
(***************************************************************************)
EXTENDS Title, IOUtils

Trace == ndJsonDeserialize(IOEnv.TRACE_FILE)

VARIABLES l, pc, run, srcA, bad     \* srcA: the source facts of run A as logged by Call
tvars == <<vars, l, pc, run, srcA, bad>>

IsEvent(e) == l <= Len(Trace) /\ Trace[l].ev = e /\ l' = l + 1

\* an atom is logged as [k, n, t, p]
ToAtoms(xs) == [i \in 1..Len(xs) |-> [k |-> xs[i][1], n |-> xs[i][2], t |-> xs[i][3], p |-> xs[i][4]]]
FactsOf(src) == [A |-> ToAtoms(src.atoms), h1p |-> src.h1p, h1a |-> ToAtoms(src.h1a), hm |-> src.hm,
                 mk |-> src.mk, mka |-> ToAtoms(src.mka)]
NoSrc == [atoms |-> << >>, h1p |-> FALSE, h1a |-> << >>, hm |-> FALSE, mk |-> FALSE, mka |-> << >>, title |-> "",
          h1 |-> "", tlen |-> 0, lenok |-> FALSE, hassep |-> FALSE, hascolon |-> FALSE]

TInit == /\ l = 1 /\ pc = "idle" /\ run = 0 /\ srcA = NoSrc /\ bad = {}
         /\ toks = << >> /\ pg = NoPage /\ ms = Idle

\* what the harness measured on the strings agrees with what TLC computes on the atoms
SourceConsistent(src) ==
    LET A == ToAtoms(src.atoms) IN
    /\ Chars(A) = src.tlen
    /\ src.lenok = (Chars(A) >= 15 /\ Chars(A) <= 150)
    /\ src.hassep = HasSepPattern(A)
    /\ src.hascolon = HasColonSpace(A)
    /\ \A i \in 1..Len(A) : A[i].k # "?"

Call == /\ IsEvent("Call")
        /\ pc \in {"idle", "returned", "crashed"}
        /\ pc' = "called"
        /\ run' = Trace[l].run
        /\ toks' = Trace[l].p.toks
        \* deco: the driver decorated the title with characters the model has no token for (apostrophe, closing
        \* punctuation): the property predicates are judged as always, the comparison with the model is skipped
        /\ pg' = [h1 |-> Trace[l].p.h1, h2 |-> Trace[l].p.h2, mk |-> Trace[l].p.mk, deco |-> Trace[l].p.deco]
        /\ ms' = Start
        /\ srcA' = Trace[l].src
        /\ bad' = {}
        /\ (~pg'.deco /\ FactsOf(srcA') # PageFacts(toks', pg')) =>
              PrintT(<<"@@DRIFT", ToJson([run |-> Trace[l].run, what |-> "generated page differs from the model's page",
                                          p |-> Trace[l].p, title |-> Trace[l].src.title])>>)
        /\ (~pg'.deco /\ ~SourceConsistent(Trace[l].src)) =>
              PrintT(<<"@@DRIFT", ToJson([run |-> Trace[l].run, what |-> "string facts and atom facts of the source differ",
                                          title |-> Trace[l].src.title])>>)

\* ---- the property on one real run: src = facts of its page, o = projection of its Result
Plain(src) == IsPlain(ToAtoms(src.atoms)) /\ src.lenok /\ ~src.hassep /\ ~src.hascolon

FailedRun(src, o) ==
    IF o.err THEN {}
    ELSE (IF o.mksupplied /\ ~o.eqmk THEN {"C15_MarkupWins"} ELSE {})
         \cup (IF ~o.mksupplied /\ ~(o.eqtitle \/ o.subtitle \/ o.eqh1) THEN {"C15_NoInvention"} ELSE {})
         \cup (IF ~o.mksupplied /\ Plain(src) /\ ~o.eqtitle THEN {"C15_ExactWhenPlain"} ELSE {})
         \cup (IF o.neq > 0 /\ (o.outeq \/ (o.nother = 0 /\ o.leak > 0)) THEN {"C15_TitleNotRepeated"} ELSE {})

\* the logged string relations agree with the relations on the decoded atoms
Decoded(src, o) ==
    LET g == FactsOf(src)
        t == ToAtoms(o.atoms)
    IN  \/ o.err
        \/ /\ o.eqtitle = (t = g.A)
           /\ o.subtitle = IsContiguousPart(t, g.A)
           /\ o.eqh1 = (g.h1p /\ t = g.h1a)
           /\ o.eqmk = (t = ToAtoms(o.mkatoms))
           /\ CharsIn(t, 1, Len(t)) = o.tchars
           \* and the three clauses, evaluated on atoms, give the same verdicts
           /\ MarkupWins([g EXCEPT !.mk = o.mksupplied, !.mka = ToAtoms(o.mkatoms)], t) = ~(o.mksupplied /\ ~o.eqmk)
           /\ NoInvention([g EXCEPT !.mk = o.mksupplied], t) = (o.mksupplied \/ o.eqtitle \/ o.subtitle \/ o.eqh1)

Class(m, o) == m.br \o (IF o.mksupplied THEN "+markup" ELSE "")

Return == /\ IsEvent("Return")
          /\ pc = "called"
          /\ Trace[l].run = run
          /\ pc' = "returned"
          /\ LET o  == Trace[l].obs
                 r  == Trace[l].rep
                 m  == Run(FactsOf(srcA))
                 fa == FailedRun(srcA, o)
                 fb == IF r.done THEN FailedRun(r.src, r.obs) ELSE {}
             IN
               /\ ms' = [m EXCEPT !.title = ToAtoms(o.atoms)]
               /\ bad' = fa \cup fb
               /\ \A name \in fa :
                     PrintT(<<"@@BAD", ToJson([run |-> run, inv |-> name, class |-> Class(m, o)])>>)
               /\ \A name \in fb \ fa :
                     PrintT(<<"@@BAD", ToJson([run |-> run, inv |-> name, class |-> Class(m, o) \o "+block"])>>)
               /\ (~pg.deco /\ ~o.err /\ ToAtoms(o.atoms) # m.title) =>
                     PrintT(<<"@@DRIFT", ToJson([run |-> run, what |-> "title differs from the model's", br |-> m.br,
                                                 got |-> o.title, srcA |-> srcA.title])>>)
               /\ (~pg.deco /\ (~Decoded(srcA, o) \/ (r.done /\ ~Decoded(r.src, r.obs)))) =>
                     PrintT(<<"@@DRIFT", ToJson([run |-> run, what |-> "string relations and atom relations differ",
                                                 got |-> o.title, srcA |-> srcA.title])>>)
               /\ (srcA.mk /\ ~o.err /\ ~(o.mksupplied /\ o.mksrc)) =>
                     PrintT(<<"@@DRIFT", ToJson([run |-> run, what |-> "MarkupInfo.Title is not the markup title of the page",
                                                 got |-> o.mktitle])>>)
               /\ (~pg.deco /\ r.done /\ (~r.same \/ (~r.obs.err /\ ToAtoms(r.obs.atoms) # Run(FactsOf(r.src)).title))) =>
                     PrintT(<<"@@DRIFT", ToJson([run |-> run, what |-> "title of the page with the repeating block", br |-> m.br,
                                                 block |-> r.block, got |-> r.obs.title, before |-> o.title])>>)
          /\ UNCHANGED <<toks, pg, run, srcA>>

Crash == /\ (IsEvent("Panic") \/ IsEvent("Hang"))
         /\ pc = "called" /\ Trace[l].run = run
         /\ pc' = "crashed"
         /\ PrintT(<<"@@CRASH", ToJson([run |-> run, ev |-> Trace[l].ev])>>)
         /\ UNCHANGED <<vars, run, srcA, bad>>

TNext == Call \/ Return \/ Crash
TraceSpec == TInit /\ [][TNext]_tvars

NoViolation == bad = {}

TraceAccepted ==
    LET d == TLCGet("stats").diameter
    IN  IF d - 1 = Len(Trace) THEN PrintT(<<"@@ACCEPTED", Len(Trace)>>)
        ELSE PrintT(<<"@@REJECTED-AT-LINE", d>>) /\ FALSE
=============================================================================
