CONSTANTS
 TokKinds = {"w6"}
 MaxLen = 1
 H1s = {"none"}
 H2s = {"none"}
 Markups = {"none"}
 Dump = FALSE
INIT TInit
NEXT TNext
CHECK_DEADLOCK FALSE
POSTCONDITION TraceAccepted
