---------------------------- MODULE ConvertTrace ----------------------------
(***************************************************************************)
(* Fidelity binding of Convert.tla.  Per run: Call carries the abstraction *)
(* `adoc` of the parsed tree (harness/fam_convert.go abstractTree), one    *)
(* Walk event per conversion pass carries the builder calls the real       *)
(* converter made (verif hooks of document-builder.go), Return closes the  *)
(* run.  The trace spec runs the model on adoc with the flag of the pass   *)
(* and compares the model's call log with the recorded one.                *)
(*                                                                         *)
(*  - a difference is DRIFT: the model no longer mirrors the code (printed *)
(*    with the index of the first diverging call), never a violation;      *)
(*  - two mechanism-level predicates of C02 are evaluated on the RECORDED  *)
(*    calls themselves: word-bearing text nodes are handed to the builder  *)
(*    in document order, each at most once, and every flushed Text starts  *)
(*    with a node handed in since the previous flush.                      *)
(***************************************************************************)
EXTENDS Convert, Json, IOUtils

Trace == ndJsonDeserialize(IOEnv.TRACE_FILE)

VARIABLES l, pc, run, adoc, bad
vars == <<l, pc, run, adoc, bad>>

IsEvent(e) == l <= Len(Trace) /\ Trace[l].ev = e /\ l' = l + 1

\* kinds the builder cannot tell apart: a font element is renamed to span before StartNode, a
\* javascript: anchor that is not rewritten is an anchor like any other
NormK(k) == IF k \in {"TW", "EMB"} THEN "EMB" ELSE IF k \in {"FIG", "FIGL"} THEN "FIG"
            ELSE IF k = "FONT" THEN "INL" ELSE IF k = "AJ" THEN "A" ELSE k
Norm(log) == [n \in 1..Len(log) |-> [e |-> log[n].e, k |-> NormK(log[n].k), n |-> log[n].n]]

FirstDiff(a, b) ==
    LET m == IF Len(a) < Len(b) THEN Len(a) ELSE Len(b)
        D == {n \in 1..m : a[n] # b[n]}
    IN  IF D = {} THEN m + 1 ELSE CHOOSE n \in D : \A x \in D : n <= x

\* C02 on the recorded calls
TextCalls(calls) == SelectSeq(calls, LAMBDA c : c.e = "text" /\ c.n # 0)
WalkVisitsTextNodesOnceInOrder(calls) ==
    LET t == TextCalls(calls) IN \A n \in 1..(Len(t) - 1) : t[n].n < t[n+1].n
FlushCalls(calls) == SelectSeq(calls, LAMBDA c : c.e = "flush")
FlushesInOrder(calls) ==
    LET f == FlushCalls(calls) IN \A n \in 1..(Len(f) - 1) : f[n].n < f[n+1].n

Init == l = 1 /\ pc = "idle" /\ run = 0 /\ adoc = <<>> /\ bad = {}

Call == /\ IsEvent("Call") /\ pc \in {"idle", "returned", "crashed"}
        /\ pc' = "called" /\ run' = Trace[l].run /\ adoc' = Trace[l].adoc /\ bad' = {}

Walk == /\ IsEvent("Walk") /\ pc = "called" /\ Trace[l].run = run
        /\ LET calls == Trace[l].calls
               model == Norm(Run(adoc, Trace[l].skip).log)
               real  == Norm(calls)
               b == (IF ~WalkVisitsTextNodesOnceInOrder(calls) THEN {"C02_WalkVisitsTextNodesOnceInOrder"} ELSE {})
                    \cup (IF ~FlushesInOrder(calls) THEN {"C02_TextElementsInDocumentOrder"} ELSE {})
           IN  /\ bad' = bad \cup b
               /\ \A name \in b : PrintT(<<"@@BAD", ToJson([run |-> run, inv |-> name, class |-> "builder-calls"])>>)
               /\ (model # real) =>
                     PrintT(<<"@@DRIFT", ToJson([run |-> run, what |-> "builder calls differ from Convert.tla",
                                                 at |-> FirstDiff(model, real), lenModel |-> Len(model), lenReal |-> Len(real),
                                                 model |-> IF FirstDiff(model, real) <= Len(model) THEN model[FirstDiff(model, real)] ELSE [e |-> "-", k |-> "", n |-> 0],
                                                 real |-> IF FirstDiff(model, real) <= Len(real) THEN real[FirstDiff(model, real)] ELSE [e |-> "-", k |-> "", n |-> 0]])>>)
        /\ UNCHANGED <<pc, run, adoc>>

Return == /\ IsEvent("Return") /\ pc = "called" /\ Trace[l].run = run
          /\ pc' = "returned" /\ UNCHANGED <<run, adoc, bad>>

Crash == /\ (IsEvent("Panic") \/ IsEvent("Hang")) /\ pc = "called" /\ Trace[l].run = run
         /\ pc' = "crashed" /\ PrintT(<<"@@CRASH", ToJson([run |-> run, ev |-> Trace[l].ev])>>)
         /\ UNCHANGED <<run, adoc, bad>>

SkipRun == IsEvent("Skip") /\ pc \in {"idle", "returned", "crashed"} /\ UNCHANGED <<pc, run, adoc, bad>>

Next == Call \/ Walk \/ Return \/ Crash \/ SkipRun
TraceSpec == Init /\ [][Next]_vars
NoViolation == bad = {}

TraceAccepted ==
    LET d == TLCGet("stats").diameter
    IN  IF d - 1 = Len(Trace) THEN PrintT(<<"@@ACCEPTED", Len(Trace)>>)
        ELSE PrintT(<<"@@REJECTED-AT-LINE", d>>) /\ FALSE
=============================================================================
