------------------------------ MODULE ConvertMC ------------------------------
(***************************************************************************)
(* Design-level check of Convert.tla over EVERY abstract document of a     *)
(* bound: DocGen grows a document node by node; at any point the walk may  *)
(* start, after which the machine of Convert.tla runs to completion on     *)
(* that document.  TLC evaluates the invariants of C02, C03, C04, C07 on   *)
(* every final element list, AppendOnly on every step, and the two C20     *)
(* theorems on every document; each finished run is dumped as a case with  *)
(* the model's element list (used by the trace spec for fidelity).         *)
(***************************************************************************)
EXTENDS DocGen, Convert

CONSTANT SkipFlag, CheckC20

VARIABLES walking, st
mvars == <<doc, walking, st>>

MInit == Init /\ walking = FALSE /\ st = S0

MGrow  == ~walking /\ Next /\ UNCHANGED <<walking, st>>
MStart == ~walking /\ Len(doc) >= 1 /\ walking' = TRUE /\ UNCHANGED <<doc, st>>
MStep  == walking /\ ~st.done /\ st' = StepF(doc, SkipFlag, st) /\ UNCHANGED <<doc, walking>>

MNext == MGrow \/ MStart \/ MStep
MSpec == MInit /\ [][MNext]_mvars /\ WF_mvars(MStep)

Final == walking /\ st.done

Inv_C02_TextInDocOrderOnce   == Final => TextInDocOrderOnce(doc, st.elems)
Inv_C04_NoHiddenOrSkipped    == Final => NoHiddenOrSkippedText(doc, st.elems)
Inv_C07_TagsBalanced         == Final => TagsBalanced(st.elems)
Inv_C07_ChainsMirrorSource   == Final => ChainsMirrorSource(doc, st.elems)
Inv_C03_SimpleParaWhole      == Final => SimpleParaWhole(doc, st.elems)
Inv_C08_MediaAllEmitted      == Final => MediaAllEmitted(doc, st.elems)
Inv_StepEqualsRun            == Final => st.elems = Run(doc, SkipFlag).elems
Inv_C20_SkipEqualsDelete     == (CheckC20 /\ ~walking /\ Len(doc) >= 1 /\ ~WrapperBecomesEmpty(doc)) => SkipEqualsDelete(doc)
\* the theorem as the property states it, without the exclusion: violated (see Convert!WrapperBecomesEmpty)
Inv_C20_SkipEqualsDeleteUnrestricted == (CheckC20 /\ ~walking /\ Len(doc) >= 1) => SkipEqualsDelete(doc)
Inv_C20_NoSkipEqualsNeutral  == (CheckC20 /\ ~walking /\ Len(doc) >= 1) => NoSkipEqualsNeutral(doc)

\* the element list only ever grows (document.go AddElements)
AppendOnly == [][walking /\ walking' => IsPrefix(st.elems, st'.elems)]_mvars
WalkTerminates == walking ~> st.done

MDump == (Dump /\ Final /\ Len(doc) >= MinDump) =>
            PrintT(<<"@@CASE", ToJson([nodes |-> doc])>>)
=============================================================================
