"""C12: Apply is safe for concurrent use (spec/Concurrent.tla, spec/trace/ConcTrace.tla, harness/race.go)."""
import os, json, subprocess, glob, shutil, re, time
from propdefs import bfs
import engine


def race_stage(ctx, stage):
    """run the -race build of the concurrent driver, collect race-detector reports and the static scan,
    hand everything to TLC as one trace"""
    root = ctx["root"]
    tier = ctx["tier"]
    drv, bt = engine.build_driver(root, race=True)
    engine.log("  built race driver in %.1fs" % bt)
    rounds = 3 if tier == "quick" else 24
    gor = 16 if tier == "quick" else 32
    known = engine.load_known(root)

    def one_run(seed, tag):
        trace = os.path.join(ctx["work"], "race-%s.ndjson" % tag)
        logp = os.path.join(ctx["work"], "racelog-%s" % tag)
        env = dict(os.environ, GORACE="log_path=%s halt_on_error=0 history_size=3" % logp)
        t0 = time.time()
        p = subprocess.run([drv, "race", "-seed", str(seed), "-rounds", str(rounds), "-goroutines", str(gor), "-out", trace],
                           env=env, stdout=subprocess.PIPE, stderr=subprocess.PIPE, text=True, timeout=3000)
        fatal = ""
        if p.returncode not in (0, 66):
            # the Go runtime aborts the whole process on unsynchronised map access: that IS a data race
            m = re.search(r"fatal error: (concurrent map[^\n]*)", p.stderr)
            if not m:
                raise engine.Infra("race driver failed rc=%d %s" % (p.returncode, p.stderr[-1500:]))
            fatal = m.group(1)
        st = {"calls": 0, "mismatches": 0}
        if p.stdout.strip():
            try:
                st = json.loads(p.stdout.strip().splitlines()[-1])
            except ValueError:
                pass
        reports = []
        if fatal:
            frames = re.findall(r"go-domdistiller[^\s(]*\.([A-Za-z0-9_().*]+)\(", p.stderr)
            reports.append("DATA RACE (runtime abort): " + fatal + " in " + ",".join(frames[:3]))
        for f in glob.glob(logp + "*"):
            txt = open(f, errors="replace").read()
            reports += [r for r in txt.split("==================") if "DATA RACE" in r]
        # the frames of the repository in the first report classify the race
        where = "none"
        if reports:
            m = re.findall(r"go-domdistiller[^\s(]*\.([A-Za-z0-9_().*]+)\(\)", reports[0])
            where = ",".join(m[:2]) if m else ("runtime-abort-concurrent-map-access" if fatal else "unknown")
        scan = subprocess.run([ctx["driver"], "scan", "-repo", engine.REPO], stdout=subprocess.PIPE, text=True, timeout=300)
        writes = json.loads(scan.stdout)["writes"]
        with open(trace, "a") as f:
            f.write(json.dumps({"ev": "RaceReport", "count": len(reports), "where": where}) + "\n")
            f.write(json.dumps({"ev": "StaticScan", "writes": len(writes),
                                "first": ("%s %s" % (writes[0]["pos"], writes[0]["var"])) if writes else "none"}) + "\n")
        engine.log("  race run %s: calls=%d mismatches=%d race reports=%d global writes=%d  %.1fs" %
                   (tag, st["calls"], st["mismatches"], len(reports), len(writes), time.time() - t0))
        bad, crashes = engine.validate(ctx, stage, [trace], "race-" + tag)
        return st, reports, writes, bad

    st, reports, writes, bad = one_run(ctx["seed"], "main")
    ctx["evaluations"] += st["calls"]
    ctx["traces"] += st["calls"]
    ctx["counter"]["concurrent_calls"] = st["calls"]
    ctx["counter"]["race_reports"] = len(reports)
    ctx["counter"]["global_writes"] = len(writes)
    ctx["samples"].append({"modes": ["distinct", "sharedtree", "sharedopts", "alllogs", "sharedall"], "goroutines": gor,
                           "rounds_per_mode_and_gomaxprocs": rounds, "gomaxprocs": [2, os.cpu_count()],
                           "calls": st["calls"]})
    if not bad:
        return
    groups = {}
    for b in bad:
        groups.setdefault((b["inv"], b.get("class", "")), []).append(b)
    for (inv, cls), bs in sorted(groups.items()):
        confirmed = inv == "C12_GlobalsWrittenOnlyAtInit"      # deterministic
        tries = 0
        while not confirmed and tries < 3:
            tries += 1
            _, _, _, bad2 = one_run(ctx["seed"] + 100 * tries, "re%d" % tries)
            confirmed = any(b["inv"] == inv for b in bad2)
        if not confirmed:
            ctx["unreproduced"] += len(bs)
            engine.log("  UNREPRODUCED: %s/%s did not show again in 3 further runs - not reported" % (inv, cls))
            continue
        fd = next((f for f in known if engine.finding_matches(f, ctx["prop"], {"inv": inv, "class": cls})), None)
        if fd is not None:
            ctx["known_lines"].append("KNOWN-FINDING: property=C12 %s [%s/%s]" % (fd.get("what", ""), inv, cls))
            ctx["known_hits"] += len(bs)
            continue
        d = os.path.join(root, "replays")
        os.makedirs(d, exist_ok=True)
        rp = os.path.join(d, "C12-%s-%d.json" % (inv, ctx["seed"]))
        with open(rp, "w") as f:
            json.dump({"property": "C12", "inv": inv, "class": cls, "seed": ctx["seed"], "tier": tier, "stage": "race",
                       "race_reports": reports[:3], "global_writes": writes[:10], "failed_calls": bs[:10],
                       "rerun": "VERIF_SEED=%d ./vcheck C12 %s" % (ctx["seed"], tier)}, f, indent=1)
        ctx["violations"].append({"inv": inv, "class": cls, "runs": len(bs), "replay": rp})


PROPS = {
    "C12": dict(
        stages=[
            dict(name="design", gen=dict(runs=[bfs("MC_C12", "C12_design")])),
            dict(name="defects", tiers=("thorough",),
                 gen=dict(runs=[bfs("MC_C12", "C12_defA", expect_violation=True), bfs("MC_C12", "C12_defB", expect_violation=True),
                                bfs("MC_C12", "C12_defC", expect_violation=True)])),
            dict(name="race", custom=race_stage, trace=dict(module="ConcTrace", cfg="ConcTrace")),
        ],
        rule="cases = rounds of 16-32 goroutines calling Apply concurrently in five sharing modes at GOMAXPROCS 2 and 16, on the rich documents; "
             "every call's result digest is compared with the same call run alone; non-trivial = concurrent calls made",
        nontrivial_key="concurrent_calls",
        assumptions=[
            "TLC explores ALL interleavings of the model (spec/Concurrent.tla, 3 calls, phase granularity); the race detector only sees the schedules the Go runtime produced in this run",
            "a data race is observed by Go's race detector (-race build of the driver), not by a hook",
            "the static scan (harness/race.go cmdScan, go/ast) lists assignments/inc-dec/delete/send on package-level variables outside init; writes through method calls on package-level values (e.g. a sync.Map) are not seen",
        ],
        exhaustive_tiers=(),
    ),
}
TEXT = {
    "C12": dict(
        level="TLC proves NoSharedWrite and SoloEquivalence for every interleaving of three concurrent calls at phase granularity in spec/Concurrent.tla (and that each of three realistic defects breaks them). The real code is then exercised by a -race build of the driver: goroutines call Apply concurrently in five sharing modes; TLC validates the recorded trace (each concurrent result equals the solo result, shared trees unchanged, no race-detector report, no write to a package-level variable outside init). Schedule coverage on the real code is what the Go runtime produced - stated, not exhaustive.",
        ref="DESIGN.md 7 C12",
        note="trusted base: TLC 1.8, Go's race detector, the go/ast scan in harness/race.go; a violation seen once must show again in one of three further runs before it is reported (static-scan findings are deterministic)",
        technique="TLA+ interleaving model + TLC; -race concurrent driver on the real code, trace validated by TLC against spec/trace/ConcTrace.tla"),
}
