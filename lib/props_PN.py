"""Stages binding spec/PageNumber.tla (the page-number finder as a machine) to the real finder through the detector hooks
(harness/fam_pn.go, spec/trace/PNTrace.tla). Used by C11 (order of candidate evaluation), C16 (the answer is a link of the
pager) and C17 (conventional pagers) - each check reads the predicates with its own prefix."""
import json
from propdefs import bfs

TRACE = dict(module="PNTrace", cfg="PNTrace")


def pn_collapse(cases, ctx):
    """one case per (items, doc); sens = TLC reached an answer different from the canonical one for some order of evaluation"""
    by = {}
    for c in cases:
        p = c["p"]
        key = json.dumps([p["items"], p["doc"]], sort_keys=True)
        canon = p.get("canon", {})
        ans = any(canon.get(f, {}).get("k", "none") != "none" for f in ("next", "prev"))
        e = by.setdefault(key, dict(p=dict(items=p["items"], doc=p["doc"], sens=False, ans=ans)))
        if p.get("answer") != p.get("canon"):
            e["p"]["sens"] = True
    out = list(by.values())
    ctx["counter"]["order_sensitive_in_model"] = ctx["counter"].get("order_sensitive_in_model", 0) + sum(1 for c in out if c["p"]["sens"])
    return out


def pn_strata(c):
    p = c["p"]
    return (p["sens"], p["ans"], p["doc"]["k"], len(p["items"]))


def pn_stage(name, quick, thorough, sample_q, sample_t):
    return dict(name=name, handler="PN", gen=dict(runs=dict(quick=quick, thorough=thorough)), group_expand=pn_collapse,
                stratify=pn_strata, sample=dict(quick=sample_q, thorough=sample_t), trace=TRACE, validators=8)


DEFECT = bfs("MC_PageNumber", "PN_grid_defect", expect_violation=True)
STAGE_C11 = pn_stage("pagenumber-order", [bfs("MC_PageNumber", "PN_grid_anyorder"), bfs("MC_PageNumber", "PN_q2_anyorder"), DEFECT],
                     [bfs("MC_PageNumber", "PN_grid_anyorder"), bfs("MC_PageNumber", "PN_q2_anyorder"), bfs("MC_PageNumber", "PN_grid_t", timeout=3000, keep=8), DEFECT], 8000, 60000)
STAGE_C16 = pn_stage("pagenumber-model", [bfs("MC_PageNumber", "PN_grid_q"), bfs("MC_PageNumber", "PN_q2_q")],
                     [bfs("MC_PageNumber", "PN_grid_t", timeout=3000, keep=8), bfs("MC_PageNumber", "PN_q2_t", timeout=3000, keep=8), bfs("MC_PageNumber", "PN_one_t", timeout=3000, keep=8)], 10000, 160000)
STAGE_C17 = pn_stage("pagenumber-model", [bfs("MC_PageNumber", "PN_conv"), bfs("MC_PageNumber", "PN_one_q"), bfs("MC_PageNumber", "PN_file_q"), bfs("MC_PageNumber", "PN_q_q")],
                     [bfs("MC_PageNumber", "PN_conv"), bfs("MC_PageNumber", "PN_one_t", timeout=3000, keep=8), bfs("MC_PageNumber", "PN_file_t", timeout=3000, keep=8),
                      bfs("MC_PageNumber", "PN_q_t", timeout=3000, keep=8)], 9000, 150000)
