#!/usr/bin/env python3
"""selftest.py [tier]: (a) every reverse patch of a fix: commit (mutants/revert-<commit>-*.patch) must be reported by the
check of the property it was found under; (b) every seeded change (seeded/<ID>-<name>/patch.diff) must be reported by
the check(s) recorded in its meta.json; (c) every defect config under spec/design must make TLC report a violation.
Everything runs against scratch copies of /repo (VERIF_REPO). Prints one line per item and a summary; exit 1 if any
item is not detected."""
import sys, os, json, re, glob, subprocess, shutil, time

ROOT = os.path.dirname(os.path.dirname(os.path.abspath(__file__)))
ENV = dict(os.environ, GOFLAGS="-mod=mod", GOPROXY="off", GOSUMDB="off", GOTOOLCHAIN="local")
tier = sys.argv[1] if len(sys.argv) > 1 else "quick"
only = sys.argv[2] if len(sys.argv) > 2 else ""


def sh(cmd, cwd=None, env=None):
    p = subprocess.run(cmd, shell=True, cwd=cwd, env=env or ENV, stdout=subprocess.PIPE, stderr=subprocess.STDOUT, text=True)
    return p.returncode, p.stdout


def run_against(patch, checks, label):
    scratch = "/tmp/repo-selftest"
    shutil.rmtree(scratch, ignore_errors=True)
    shutil.copytree("/repo", scratch, ignore=shutil.ignore_patterns(".git"))
    rc, o = sh("patch -p1 -F3 --no-backup-if-mismatch < %s" % patch, cwd=scratch)
    if rc != 0:
        print("%-40s PATCH DOES NOT APPLY (later fixes changed the context)" % label)
        shutil.rmtree(scratch, ignore_errors=True)
        return None
    rc, o = sh("go build ./...", cwd=scratch)
    if rc != 0:
        print("%-40s does not build" % label)
        shutil.rmtree(scratch, ignore_errors=True)
        return None
    hit = []
    for c in checks:
        rc, o = sh("./vcheck %s %s" % (c, tier), cwd=ROOT, env=dict(ENV, VERIF_REPO=scratch))
        hit.append((c, rc))
        if rc == 1:
            break
    shutil.rmtree(scratch, ignore_errors=True)
    ok = any(rc == 1 for _, rc in hit)
    print("%-40s %s  %s" % (label, "DETECTED" if ok else "MISSED", " ".join("%s:exit%d" % h for h in hit)))
    return ok


def main():
    known = json.load(open(os.path.join(ROOT, "known_findings.json")))
    commit_props = {}
    for line in known.get("fixed", []):
        m = re.match(r"fixed: property=(C\d+) ([0-9a-f]{7})", line)
        if m:
            commit_props.setdefault(m.group(2), []).append(m.group(1))
    extra = {"b491934": ["C09", "C02"], "b1d0e63": ["C04", "C05"], "f54c457": ["C03", "C02"], "7d4ad41": ["C11", "C01"], "38b5097": ["C02", "C20"]}
    # reverse patches that no longer change any behaviour on the current tree, because a later fix covers the same inputs
    # by other means (checked by hand: the recorded failing input of the earlier fix passes with the reverse patch applied)
    superseded = {"18a8bea": "3647b85 (TreeClone keeps words apart across an omitted block)",
                  "38b5097": "3647b85 (TreeClone keeps words apart across an omitted block)",
                  "5af224c": "4f94807 (a hidden figcaption is no caption: the nil clone is never built)",
                  "7d4ad41": "d786203 (candidates are evaluated in sorted order: the write into the shared list no longer makes "
                             "the result depend on the run; what it still changes is which pagination odd pagers such as 1 3 5 "
                             "get, which no property judges)"}
    results = []
    for p in sorted(glob.glob(os.path.join(ROOT, "mutants", "revert-*.patch"))):
        c = os.path.basename(p).split("-")[1]
        if only and only not in p:
            continue
        if c in superseded:
            print("%-40s SUPERSEDED by %s" % (os.path.basename(p)[:40], superseded[c]))
            results.append(None)
            continue
        checks = extra.get(c, commit_props.get(c, []))
        if not checks:
            print("%-40s no property recorded" % os.path.basename(p)[:40])
            continue
        results.append(run_against(p, checks, os.path.basename(p)[:40]))
    for d in sorted(glob.glob(os.path.join(ROOT, "seeded", "*"))):
        if only and only not in d:
            continue
        meta = json.load(open(os.path.join(d, "meta.json")))
        checks = [k for k, v in meta.get("checks", {}).items() if v.get("exit") == 1] or [meta["property"]]
        results.append(run_against(os.path.join(d, "patch.diff"), checks, "seeded/" + os.path.basename(d)))
    sh("git checkout -- evidence", cwd=ROOT)
    done = [r for r in results if r is not None]
    print("selftest: %d items, %d detected, %d missed, %d not applicable" %
          (len(results), sum(1 for r in done if r), sum(1 for r in done if not r), len(results) - len(done)))
    return 0 if all(done) else 1


if __name__ == "__main__":
    sys.exit(main())
