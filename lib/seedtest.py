#!/usr/bin/env python3
"""seedtest.py <out-dir> <mutant-name> <prop> [check-id ...]
Confirms a seeded change (compiles, suite passes, demo fails with / passes without), runs the given checks
against a scratch copy of /repo carrying it (VERIF_REPO), and files everything under /verif/seeded/."""
import sys, os, json, subprocess, shutil, time

ROOT = os.path.dirname(os.path.dirname(os.path.abspath(__file__)))
ENV = dict(os.environ, GOFLAGS="-mod=mod", GOPROXY="off", GOSUMDB="off", GOTOOLCHAIN="local")


def sh(cmd, cwd=None, env=None, timeout=3600):
    p = subprocess.run(cmd, shell=True, cwd=cwd, env=env or ENV, stdout=subprocess.PIPE, stderr=subprocess.STDOUT, text=True, timeout=timeout)
    return p.returncode, p.stdout


def main():
    out, name, prop = sys.argv[1], sys.argv[2], sys.argv[3]
    checks = sys.argv[4:] or [prop]
    tier = os.environ.get("SEED_TIER", "quick")
    scratch = "/tmp/repo-seed-%s-%s" % (prop, name)
    shutil.rmtree(scratch, ignore_errors=True)
    shutil.copytree("/repo", scratch, ignore=shutil.ignore_patterns(".git"))
    patch = os.path.join(out, name + ".diff")
    demo = os.path.join(out, name + "_demo_test.go")
    res = {"property": prop, "mutant": name, "tier": tier}
    rc, o = sh("patch -p1 -F3 --no-backup-if-mismatch < %s" % patch, cwd=scratch)
    res["applies"] = rc == 0
    if rc != 0:
        print("patch does not apply:\n", o[-800:])
        shutil.rmtree(scratch, ignore_errors=True)
        return 1
    rc, o = sh("go build ./... && go test -vet=off -count=1 ./... 2>&1 | grep -v '^ok\\|no test files'", cwd=scratch)
    res["suite_passes"] = o.strip() == ""
    if o.strip():
        print("suite output:", o[-600:])
    # demo with the mutant
    shutil.copy(demo, os.path.join(scratch, "zz_demo_test.go"))
    rc, o = sh("go test -vet=off -count=1 -run . . 2>&1 | tail -5", cwd=scratch)
    res["demo_fails_with_mutant"] = "FAIL" in o
    os.remove(os.path.join(scratch, "zz_demo_test.go"))
    # demo without: against /repo copy
    clean = scratch + "-clean"
    shutil.rmtree(clean, ignore_errors=True)
    shutil.copytree("/repo", clean, ignore=shutil.ignore_patterns(".git"))
    shutil.copy(demo, os.path.join(clean, "zz_demo_test.go"))
    rc, o2 = sh("go test -vet=off -count=1 -run . . 2>&1 | tail -5", cwd=clean)
    res["demo_passes_without"] = rc == 0 and "ok" in o2
    shutil.rmtree(clean, ignore_errors=True)
    res["checks"] = {}
    for c in checks:
        t0 = time.time()
        rc, o = sh("./vcheck %s %s" % (c, tier), cwd=ROOT, env=dict(ENV, VERIF_REPO=scratch))
        viol = [l for l in o.splitlines() if l.startswith("VIOLATION") or l.startswith("  (")]
        res["checks"][c] = {"exit": rc, "wall_s": round(time.time() - t0, 1), "lines": viol[:8]}
        print("check %s %s -> exit %d  %s" % (c, tier, rc, " | ".join(viol[:4])[:300]))
    shutil.rmtree(scratch, ignore_errors=True)
    # the evidence file was rewritten by the run against the mutant: restore it
    sh("git checkout -- evidence 2>/dev/null", cwd=ROOT)
    d = os.path.join(ROOT, "seeded", "%s-%s%s" % (prop, os.environ.get("SEED_PREFIX", ""), name))
    os.makedirs(d, exist_ok=True)
    shutil.copy(patch, os.path.join(d, "patch.diff"))
    shutil.copy(demo, os.path.join(d, "demo_test.go"))
    meta = {}
    mp = os.path.join(out, "meta.json")
    if os.path.exists(mp):
        try:
            m = json.load(open(mp))
            meta = next((x for x in m.get("mutants", []) if x.get("name") == name), {})
        except Exception:
            pass
    res["what"] = meta.get("what", "")
    res["needs"] = meta.get("needs", "")
    res["origin"] = "independent sub-agent given only the property text and a scratch worktree"
    res["ran"] = "lib/seedtest.py: patch applied to a scratch copy of /repo; go build + go test ./...; demo test with and without; ./vcheck <id> %s with VERIF_REPO=<scratch>" % tier
    json.dump(res, open(os.path.join(d, "meta.json"), "w"), indent=1)
    print(json.dumps({k: v for k, v in res.items() if k != "checks"}))
    return 0


if __name__ == "__main__":
    sys.exit(main())
