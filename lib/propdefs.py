"""helpers shared by the per-property configuration modules (lib/props*.py)"""


def bfs(module, cfg, **kw):
    d = dict(module=module, cfg=cfg, mode="bfs")
    d.update(kw)
    return d


def sim(module, cfg, num, depth, **kw):
    d = dict(module=module, cfg=cfg, mode="simulate", num=num, depth=depth)
    d.update(kw)
    return d
