"""C16, C17: pagination links (spec/Pager.tla, spec/trace/PagerTrace.tla, harness/fam_pager.go)."""
from propdefs import bfs, sim
import props_PN

TRACE = dict(module="PagerTrace", cfg="PagerTrace")
ASSUME = [
    "page URLs and link targets use a vocabulary that is neutral for the prev/next scorer's word lists (no article, comment, page, post, print ... in URLs)",
    "conventional pagers: pages 1..N, 2 <= N <= 12, every link follows one pattern (query parameter, path component, file-name suffix), current page as plain text",
    "link facts (absolute, http(s), same host, normalised target of an anchor of the document) are computed lexically by harness/fam_pager.go; targets are resolved against the page URL as given",
]
PROPS = {
    "C17": dict(
        stages=[dict(name="prevnext-design", gen=dict(runs=[bfs("MC_PrevNext", "PrevNext_conv"),
                                                            bfs("MC_PrevNext", "PrevNext_defect", expect_violation=True)])),
                dict(name="main", gen=dict(runs=dict(quick=[bfs("MC_Pager", "C17_conv")], thorough=[bfs("MC_Pager", "C17_conv")])),
                     sample=dict(quick=16000, thorough=None), trace=TRACE,
                     stratify=lambda c: (c["p"]["n"], c["p"]["k"], c["p"]["algo"])), props_PN.STAGE_C17],
        rule="cases = every (N,k) with 2<=N<=12 x URL family x separator x wrapper x current-page decoration (PageNumber) "
             "and x Next/Prev label sets (PrevNext), from spec/Pager.tla; non-trivial = runs that returned a next link",
        nontrivial_key="next_found", assumptions=ASSUME, exhaustive_tiers=("thorough",)),
    "C16": dict(
        stages=[dict(name="main", gen=dict(runs=dict(quick=[bfs("MC_Pager", "C16_quick"), bfs("MC_Pager", "C16_q3"), sim("MC_Pager", "C16_thorough", 3000, 5), bfs("MC_Pager", "C17_conv")],
                                                     thorough=[bfs("MC_Pager", "C16_thorough", heap="12g"), bfs("MC_Pager", "C17_conv")])),
                     sample=dict(quick=40000, thorough=600000), trace=TRACE,
                     stratify=lambda c: (c["p"]["kind"], c["p"]["algo"], len(c["p"].get("anchors", [])))), props_PN.STAGE_C16],
        rule="cases = every sequence of up to 2 (quick) / 3 (thorough) anchors over 14 href kinds x 3 label kinds x position of the plain "
             "current-page number x both finders x 3 page-URL shapes, plus the conventional pagers; non-trivial = runs that returned a next or prev link",
        nontrivial_key="next_found", assumptions=ASSUME, exhaustive_tiers=()),
}
TEXT = {
    "C17": dict(level="TLC enumerates every conventional pager of the stated family (all 78 (N,k) cells x 3 URL families x markups; PrevNext: x label sets) from spec/Pager.tla; each is rendered and run through Apply with the page-number and the prev/next finder; TLC decides NextIsPageAfter / PrevIsPageBefore (exact expected links) on every recorded run. Exhaustive over the stated pager family in the thorough tier. Second stage: spec/PageNumber.tla (the finder transcribed as a machine: monotonic grouping, candidate patterns, adjacency/consecutiveness/gap analysis, linear formula, first-page insertion, next/prev derivation) - TLC proves at design level that every conventional pager (N <= 12, every k) is resolved to exactly (k+1, k-1), and every enumerated pager is run on the real finder, its detector steps (hooks) are replayed on the model step by step (differences are reported as DRIFT) and the returned links are judged. Third: spec/PrevNext.tla (the prev/next scorer: filter, score and choice transcribed rule by rule over the lexical facts of a link) - TLC proves LabelledLinkWins for every conventional pager (7 URL families x N <= 12 x k x 4 label sets x with/without numbered links; the defect toggle for the page-number difference must fail), and the score the real code gave to every candidate link (hook) is compared with the model's score.", ref="DESIGN.md 7 C17",
                note="trusted base: TLC 1.8; harness/fam_pager.go renders the pager and decodes the returned URLs to page indexes by exact string match with the generated links", technique="TLA+ pager model (spec/Pager.tla), finder model (spec/PageNumber.tla) and scorer model (spec/PrevNext.tla) + TLC exhaustive enumeration; real-code runs validated by TLC against spec/trace/PagerTrace.tla and, step by step through the detector hooks, spec/trace/PNTrace.tla"),
    "C16": dict(level="TLC enumerates mixed pagers (every short sequence of anchors over 14 href kinds incl. javascript:, mailto:, empty, #, malformed, off-site, look-alike hosts, other scheme/case, scheme-relative) with and without a plain current-page number, for both finders and three page-URL shapes, plus all conventional pagers; on each real run TLC checks that a non-empty NextPage/PrevPage is absolute, http(s), on the page's host and the normalised target of an anchor of the document. Second stage: spec/PageNumber.tla - TLC checks NeverPlaceHolder and AnswerIsALink (the answer is the URL of a link item, never a javascript:/empty place holder, never the page itself inserted as first page) on the finder model for every pager of the bound over links with two numeric path components, javascript: and empty-href place holders and plain numbers; each pager is run on the real finder, replayed on the model through the detector hooks, and the returned links must be links of the pager.", ref="DESIGN.md 7 C16",
                note="trusted base: TLC 1.8; the lexical link facts of harness/fam_pager.go (Go's net/url only resolves the document's own anchors against the page URL to build the target set)", technique="TLA+ pager model (spec/Pager.tla) and finder model (spec/PageNumber.tla) + TLC enumeration; real-code runs validated by TLC against spec/trace/PagerTrace.tla and spec/trace/PNTrace.tla"),
}
