"""C01, C10, C11, C13: histories of calls (spec/Distiller.tla, spec/trace/CallsTrace.tla)."""
import random
import props_PN
from propdefs import bfs

N_DOCS = 28
GOOD_URLS = [1, 2, 3, 4, 16, 13, 17, 12]
ODD_URLS = [5, 6, 7, 8, 9, 10, 11, 13, 14, 15, 18, 19]

GEN = dict(runs=dict(quick=[bfs("MC_Calls", "Calls_design")], thorough=[bfs("MC_Calls", "Calls_design")]))
TRACE = dict(module="CallsTrace", cfg="CallsTrace")


def step(o, entry="apply", url=None, doc=-1):
    s = dict(entry=entry, nil=o["nil"], log=o["log"], skip=o["skip"], algo=o["algo"], doc=doc)
    s["url"] = 0 if (o["nil"] or not o["url"]) else (url if url is not None else 1)
    return s


def tuples(cases):
    """the distinct (root, opts) pairs dumped by TLC"""
    roots = sorted({c["root"] for c in cases})
    opts = []
    seen = set()
    for c in cases:
        k = tuple(sorted(c["opts"].items()))
        if k not in seen:
            seen.add(k)
            opts.append(c["opts"])
    opts.sort(key=lambda o: (o["nil"], o["log"], o["url"], o["skip"], o["algo"]))
    return roots, opts


def all_once(fn):
    """expanders work on the whole case list: run once (on the first case), ignore the rest"""
    def expand(case, ctx):
        if ctx.get("_expanded_" + fn.__name__):
            return []
        ctx["_expanded_" + fn.__name__] = True
        return fn(ctx["_all_cases"], ctx)
    return expand


def c13_groups(cases, ctx):
    """per document: the same tree through many option tuples"""
    roots, opts = tuples(cases)
    rnd = random.Random(ctx["seed"] * 31 + 5)
    per = 40 if ctx["tier"] == "quick" else len(opts)
    reps = 8 if ctx["tier"] == "quick" else 40
    out = []
    for rep in range(reps):
        for d in range(N_DOCS):
            url = GOOD_URLS[(d + rep) % len(GOOD_URLS)]
            chosen = opts if per >= len(opts) else rnd.sample(opts, per)
            # mostly Apply on the parsed tree; every option tuple also goes through one of the other entry points now and then
            hist = [step(o, rnd.choice(["apply", "apply", "apply", "url", "reader", "file"]), url) for o in chosen]
            rnd.shuffle(hist)
            out.append(dict(p=dict(doc=d + N_DOCS * rep, root="document", hist=hist)))
    return out


def c11_groups(cases, ctx):
    """per document: repeated identical calls, the three byte/tree entry points, and calls on OTHER documents in between
    (state leaking from one call into the next shows as a difference between two calls on the same document)"""
    roots, opts = tuples(cases)
    rnd = random.Random(ctx["seed"] * 37 + 11)
    reps = 8 if ctx["tier"] == "quick" else 120
    base = [o for o in opts if not o["nil"] and o["log"] in (0, 15) and o["url"] and not o["skip"]]
    out = []
    for rep in range(reps):
        for d in range(N_DOCS):
            url = GOOD_URLS[(d + rep) % len(GOOD_URLS)]
            me = d + N_DOCS * rep
            # one instance of every template lies between two calls on this group's document
            others = [t + N_DOCS * rnd.randrange(reps) for t in range(N_DOCS)]
            others = [x for x in others if x != me] + [d + N_DOCS * ((rep + 1) % reps)]
            hist = []
            for o in rnd.sample(base, 2):
                hist += [step(o, "apply", url)] * 8 + [step(o, "reader", url)] * 2 + [step(o, "file", url)]
                hist += [step(o, "apply", url, doc=x) for x in others]
            rnd.shuffle(hist)
            # the group's own document first and last, so that every other document lies in between
            o = base[0]
            hist = [step(o, "apply", url)] + hist + [step(o, "apply", url)]
            out.append(dict(p=dict(doc=me, root="document", hist=hist)))
    return out


def c10_groups(cases, ctx):
    """per document and root kind: the same tree and the same Options value through every entry point, repeatedly"""
    roots, opts = tuples(cases)
    rnd = random.Random(ctx["seed"] * 41 + 3)
    reps = 6 if ctx["tier"] == "quick" else 150
    out = []
    for rep in range(reps):
        for d in range(N_DOCS):
            for root in ("document", "element", "detachedElement"):
                url = GOOD_URLS[(d + rep) % len(GOOD_URLS)]
                hist = []
                for o in rnd.sample(opts, 3):
                    entries = ["apply", "apply", "apply"]
                    if root == "document":
                        entries += ["reader", "url", "file"]
                    hist += [step(o, e, url) for e in entries]
                out.append(dict(p=dict(doc=d + N_DOCS * rep, root=root, hist=hist)))
    return out


def c01_groups(cases, ctx):
    """every root kind x option tuple (incl. odd page URLs), one call per group"""
    roots, opts = tuples(cases)
    rnd = random.Random(ctx["seed"] * 43 + 1)
    out = []
    n_per = 5 if ctx["tier"] == "quick" else 200
    for root in roots:
        for o in opts:
            if not o["url"] and o["log"] not in (0, 5, 15) and ctx["tier"] == "quick":
                continue
            for i in range(n_per if root in ("document", "element", "detachedElement") else 1):
                d = rnd.randrange(N_DOCS * 50)
                url = rnd.choice(GOOD_URLS + ODD_URLS + ODD_URLS)
                entry = "apply" if root != "document" else rnd.choice(["apply", "apply", "reader"])
                out.append(dict(p=dict(doc=d, root=root, hist=[step(o, entry, url)])))
    # the documents with pagers and odd anchors, systematically through every page-URL class and both finders
    for d in (1, 8, 9, 11, 15, 16, 18, 23, 24, 25):
        for url in GOOD_URLS + ODD_URLS:
            for algo in ("prevnext", "pagenumber"):
                for rep in range(3 if ctx["tier"] == "quick" else 25):
                    o = dict(nil=False, log=0, url=True, skip=False, algo=algo)
                    out.append(dict(p=dict(doc=d + N_DOCS * rep, root="document", hist=[step(o, "apply", url)])))
    # every odd pager shape (richdoc 23 has 15 of them) under the page URLs they are written for, both finders
    for rep in range(15):
        for url in (18, 19, 1, 4):
            for algo in ("prevnext", "pagenumber"):
                o = dict(nil=False, log=0, url=True, skip=False, algo=algo)
                out.append(dict(p=dict(doc=23 + N_DOCS * rep, root="document", hist=[step(o, "apply", url)])))
    return out


def c01_bytes(ctx):
    """byte-level inputs (produced by the driver, not by TLC): truncations, NULs, misnesting, deep nesting, tag soup"""
    rnd = random.Random(ctx["seed"] * 47 + 9)
    out = []
    scale = 1 if ctx["tier"] == "quick" else 60
    def add(mode, param, n=1):
        for _ in range(n):
            o = dict(nil=False, log=rnd.choice([0, 0, 0, 15]), url=True, skip=False, algo=rnd.choice(["prevnext", "pagenumber"]))
            out.append(dict(p=dict(doc=rnd.randrange(N_DOCS * 20), root="document", mode=mode, param=param,
                                   hist=[step(o, rnd.choice(["reader", "apply"]), rnd.choice(GOOD_URLS))])))
    for p in range(40):
        add("trunc", p, 6 * scale)
    for p in range(5):
        add("nul", p, 20 * scale)
    for p in range(8):
        add("misnest", p, 20 * scale)
    for p in range(32):
        add("deep", p, 1)
    for p in range(150 * scale):
        add("soup", p, 2)
    for p in range(10):
        add("empty", p, 1)
    return out


def collect(fn):
    def expand(case, ctx):
        return [case]
    return expand


def stage(fn, sample_q, sample_t, crash=False):
    return dict(name="main", gen=GEN, group_expand=fn, sample=dict(quick=sample_q, thorough=sample_t),
                trace=TRACE, crash_is_violation=crash, validators=8, eval_key="calls", run_to_case=lambda r: r // 1000)


ASSUME = [
    "phases of a call are observed through the verif hooks RootCheck/Pass/DocFilter/Rendered/Paginated (build tag verif)",
    "documents are the rich templates of harness/richdoc.go (ASCII), roots/options/entry points are enumerated by TLC from spec/Distiller.tla",
    "argument snapshots compare node identities, links, type, data, namespace, attributes of the whole containing tree and the Options/URL values",
]

PROPS = {
    "C13": dict(stages=[stage(c13_groups, 600, 20000)],
                rule="cases = groups: one document through many option tuples (all 16 log sets x algo x skip x url, from the TLC model); "
                     "non-trivial = calls that returned a result",
                nontrivial_key="returned_result", assumptions=ASSUME, exhaustive_tiers=()),
    "C11": dict(stages=[dict(stage(c11_groups, 150, 3000), two_orders=True), props_PN.STAGE_C11],
                rule="cases = groups: identical calls repeated, Apply vs ApplyForReader vs ApplyForFile on the same bytes, shuffled with other calls; "
                     "non-trivial = calls that returned a result",
                nontrivial_key="returned_result", assumptions=ASSUME, exhaustive_tiers=()),
    "C10": dict(stages=[stage(c10_groups, 250, 20000)],
                rule="cases = groups: the same tree (document / attached element / detached element) and the same Options value through "
                     "Apply, ApplyForReader, ApplyForURL (loopback), repeated; non-trivial = calls that returned a result",
                nontrivial_key="returned_result", assumptions=ASSUME, exhaustive_tiers=()),
    "C01": dict(stages=[stage(c01_groups, 12000, 400000, crash=True),
                        dict(name="bytes", cases_py=c01_bytes, sample=dict(quick=None, thorough=None), trace=TRACE,
                             crash_is_violation=True, validators=8, eval_key="calls", run_to_case=lambda r: r // 1000)],
                rule="cases = root kind x option tuple (TLC product of spec/Distiller.tla) x rich document x page URL class (incl. odd URLs); "
                     "non-trivial = calls that returned a result (the others returned an error)",
                nontrivial_key="returned_result", assumptions=ASSUME, exhaustive_tiers=()),
}

NOTE = ("trusted base: TLC 1.8; the verif hooks (pipeline phases); harness/fam_calls.go (roots, entry points, argument snapshots, field digests); "
        "sha1 digests stand for equality of result fields")
TECH = "TLA+ pipeline/history model (spec/Distiller.tla) + TLC; hook-recorded call histories of the real code validated by TLC against spec/trace/CallsTrace.tla"
TEXT = {
    "C01": dict(level="TLC checks termination (liveness under weak fairness), result well-formedness and phase order of the single-call machine for every root kind x option tuple; every tuple is then run on the real code (7 root kinds, all 16 log sets, both finders, skip, nil options, 13 page-URL classes incl. odd ones) plus byte-level inputs (truncation at tag boundaries, NULs, misnesting, nesting to depth 2000, tag soup). Each call is recorded through the hooks and must be a complete behaviour Call..Return of the machine; a panic, a hang (20 s watchdog) or an ill-formed result is a violation after reproduction in a fresh process.", ref="DESIGN.md 7 C01", note=NOTE + "; byte-level inputs come from the driver, not from TLC; inputs above 1 MB or deeper than 2000 are out of scope", technique=TECH),
    "C10": dict(level="Action property CallerUntouched of spec/Distiller.tla; on the real code every call of a history (same tree and same Options value through Apply / ApplyForReader / ApplyForURL over a loopback server, document / attached element / detached element roots) carries a deep snapshot of the whole containing tree (node identities, links, names, attributes, text) and of the Options and URL values before and after; TLC evaluates TreeUntouched / OptionsUntouched on every Return.", ref="DESIGN.md 7 C10", note=NOTE, technique=TECH),
    "C11": dict(level="Histories of identical calls, of Apply vs ApplyForReader vs ApplyForFile on the same bytes, shuffled with other calls in one process and driven in forward and reverse order; TLC keeps the first result digest per (entry, options) in the group memory of the trace spec and checks every later Return against it (RepeatedCallsAgree, EntryPointsAgree). Second stage: spec/PageNumber.tla models the page-number finder with the candidate patterns of a group evaluated in ANY order (what ranging over a Go map does): TLC explores every order for every pager of the bound, reports the pagers whose answer depends on it (the defect config must produce the counterexample), and each enumerated pager is run 8 times on the real finder with its detector steps recorded by hooks and replayed on the model; TLC judges RepeatedCallsAgree on the set of real answers.", ref="DESIGN.md 7 C11", note=NOTE + "; spec/PageNumber.tla (transcribed from internal/pagination), harness/fam_pn.go maps URLs to the model's abstract URLs", technique=TECH + "; spec/PageNumber.tla explored by TLC over all evaluation orders, real runs validated against spec/trace/PNTrace.tla"),
    "C13": dict(level="OptionsOnlyWhatTheySay of spec/Distiller.tla (pagination phase iff not skipped and URL given; URL field mirrors the option); on the real code one document goes through the option tuples enumerated by TLC (16 log sets x algorithm x skip x url x nil); TLC checks on the recorded histories that the core digest never depends on log flags, algorithm or skip, that pagination is empty when skipped or without URL, that pagination for a given algorithm does not depend on log flags, and that Result.URL is the supplied URL.", ref="DESIGN.md 7 C13", note=NOTE, technique=TECH),
}
