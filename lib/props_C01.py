"""C01, C10, C11, C13: histories of calls (spec/Distiller.tla, spec/trace/CallsTrace.tla)."""
import random
from propdefs import bfs

N_DOCS = 14
GOOD_URLS = [1, 2, 3, 4]
ODD_URLS = [5, 6, 7, 8, 9, 10, 11, 12, 13]

GEN = dict(runs=dict(quick=[bfs("MC_Calls", "Calls_design")], thorough=[bfs("MC_Calls", "Calls_design")]))
TRACE = dict(module="CallsTrace", cfg="CallsTrace")


def step(o, entry="apply", url=None):
    s = dict(entry=entry, nil=o["nil"], log=o["log"], skip=o["skip"], algo=o["algo"])
    s["url"] = 0 if (o["nil"] or not o["url"]) else (url if url is not None else 1)
    return s


def tuples(cases):
    """the distinct (root, opts) pairs dumped by TLC"""
    roots = sorted({c["root"] for c in cases})
    opts = []
    seen = set()
    for c in cases:
        k = tuple(sorted(c["opts"].items()))
        if k not in seen:
            seen.add(k)
            opts.append(c["opts"])
    opts.sort(key=lambda o: (o["nil"], o["log"], o["url"], o["skip"], o["algo"]))
    return roots, opts


def all_once(fn):
    """expanders work on the whole case list: run once (on the first case), ignore the rest"""
    def expand(case, ctx):
        if ctx.get("_expanded_" + fn.__name__):
            return []
        ctx["_expanded_" + fn.__name__] = True
        return fn(ctx["_all_cases"], ctx)
    return expand


def c13_groups(cases, ctx):
    """per document: the same tree through many option tuples"""
    roots, opts = tuples(cases)
    rnd = random.Random(ctx["seed"] * 31 + 5)
    per = 40 if ctx["tier"] == "quick" else len(opts)
    reps = 8 if ctx["tier"] == "quick" else 12
    out = []
    for rep in range(reps):
        for d in range(N_DOCS):
            url = GOOD_URLS[(d + rep) % len(GOOD_URLS)]
            chosen = opts if per >= len(opts) else rnd.sample(opts, per)
            hist = [step(o, "apply", url) for o in chosen]
            rnd.shuffle(hist)
            out.append(dict(p=dict(doc=d + N_DOCS * rep, root="document", hist=hist)))
    return out


def c11_groups(cases, ctx):
    """per document: repeated identical calls, the three byte/tree entry points, unrelated calls in between"""
    roots, opts = tuples(cases)
    rnd = random.Random(ctx["seed"] * 37 + 11)
    reps = 12 if ctx["tier"] == "quick" else 60
    base = [o for o in opts if not o["nil"] and o["log"] in (0, 15)]
    out = []
    for rep in range(reps):
        for d in range(N_DOCS):
            url = GOOD_URLS[(d + rep) % len(GOOD_URLS)]
            hist = []
            for o in rnd.sample(base, 3):
                hist += [step(o, "apply", url)] * 3 + [step(o, "reader", url)] * 2 + [step(o, "file", url)]
            rnd.shuffle(hist)
            out.append(dict(p=dict(doc=d + N_DOCS * rep, root="document", hist=hist)))
    return out


def c10_groups(cases, ctx):
    """per document and root kind: the same tree and the same Options value through every entry point, repeatedly"""
    roots, opts = tuples(cases)
    rnd = random.Random(ctx["seed"] * 41 + 3)
    reps = 6 if ctx["tier"] == "quick" else 40
    out = []
    for rep in range(reps):
        for d in range(N_DOCS):
            for root in ("document", "element", "detachedElement"):
                url = GOOD_URLS[(d + rep) % len(GOOD_URLS)]
                hist = []
                for o in rnd.sample(opts, 3):
                    entries = ["apply", "apply", "apply"]
                    if root == "document":
                        entries += ["reader", "url"]
                    hist += [step(o, e, url) for e in entries]
                out.append(dict(p=dict(doc=d + N_DOCS * rep, root=root, hist=hist)))
    return out


def c01_groups(cases, ctx):
    """every root kind x option tuple (incl. odd page URLs), one call per group"""
    roots, opts = tuples(cases)
    rnd = random.Random(ctx["seed"] * 43 + 1)
    out = []
    n_per = 5 if ctx["tier"] == "quick" else 40
    for root in roots:
        for o in opts:
            if not o["url"] and o["log"] not in (0, 5, 15) and ctx["tier"] == "quick":
                continue
            for i in range(n_per if root in ("document", "element", "detachedElement") else 1):
                d = rnd.randrange(N_DOCS * 50)
                url = rnd.choice(GOOD_URLS + ODD_URLS + ODD_URLS)
                entry = "apply" if root != "document" else rnd.choice(["apply", "apply", "reader"])
                out.append(dict(p=dict(doc=d, root=root, hist=[step(o, entry, url)])))
    # the documents with pagers and odd anchors, systematically through every page-URL class and both finders
    for d in (1, 8, 9, 11):
        for url in GOOD_URLS + ODD_URLS:
            for algo in ("prevnext", "pagenumber"):
                for rep in range(3 if ctx["tier"] == "quick" else 25):
                    o = dict(nil=False, log=0, url=True, skip=False, algo=algo)
                    out.append(dict(p=dict(doc=d + N_DOCS * rep, root="document", hist=[step(o, "apply", url)])))
    return out


def c01_bytes(ctx):
    """byte-level inputs (produced by the driver, not by TLC): truncations, NULs, misnesting, deep nesting, tag soup"""
    rnd = random.Random(ctx["seed"] * 47 + 9)
    out = []
    scale = 1 if ctx["tier"] == "quick" else 12
    def add(mode, param, n=1):
        for _ in range(n):
            o = dict(nil=False, log=rnd.choice([0, 0, 0, 15]), url=True, skip=False, algo=rnd.choice(["prevnext", "pagenumber"]))
            out.append(dict(p=dict(doc=rnd.randrange(N_DOCS * 20), root="document", mode=mode, param=param,
                                   hist=[step(o, rnd.choice(["reader", "apply"]), rnd.choice(GOOD_URLS))])))
    for p in range(40):
        add("trunc", p, 6 * scale)
    for p in range(5):
        add("nul", p, 20 * scale)
    for p in range(8):
        add("misnest", p, 20 * scale)
    for p in range(32):
        add("deep", p, 1)
    for p in range(150 * scale):
        add("soup", p, 2)
    for p in range(10):
        add("empty", p, 1)
    return out


def collect(fn):
    def expand(case, ctx):
        return [case]
    return expand


def stage(fn, sample_q, sample_t, crash=False):
    return dict(name="main", gen=GEN, group_expand=fn, sample=dict(quick=sample_q, thorough=sample_t),
                trace=TRACE, crash_is_violation=crash, validators=8, eval_key="calls", run_to_case=lambda r: r // 1000)


ASSUME = [
    "phases of a call are observed through the verif hooks RootCheck/Pass/DocFilter/Rendered/Paginated (build tag verif)",
    "documents are the rich templates of harness/richdoc.go (ASCII), roots/options/entry points are enumerated by TLC from spec/Distiller.tla",
    "argument snapshots compare node identities, links, type, data, namespace, attributes of the whole containing tree and the Options/URL values",
]

PROPS = {
    "C13": dict(stages=[stage(c13_groups, 200, 4000)],
                rule="cases = groups: one document through many option tuples (all 16 log sets x algo x skip x url, from the TLC model); "
                     "non-trivial = calls that returned a result",
                nontrivial_key="returned_result", assumptions=ASSUME, exhaustive_tiers=()),
    "C11": dict(stages=[stage(c11_groups, 170, 3000)],
                rule="cases = groups: identical calls repeated, Apply vs ApplyForReader vs ApplyForFile on the same bytes, shuffled with other calls; "
                     "non-trivial = calls that returned a result",
                nontrivial_key="returned_result", assumptions=ASSUME, exhaustive_tiers=()),
    "C10": dict(stages=[stage(c10_groups, 250, 5000)],
                rule="cases = groups: the same tree (document / attached element / detached element) and the same Options value through "
                     "Apply, ApplyForReader, ApplyForURL (loopback), repeated; non-trivial = calls that returned a result",
                nontrivial_key="returned_result", assumptions=ASSUME, exhaustive_tiers=()),
    "C01": dict(stages=[stage(c01_groups, 12000, 200000, crash=True),
                        dict(name="bytes", cases_py=c01_bytes, sample=dict(quick=None, thorough=None), trace=TRACE,
                             crash_is_violation=True, validators=8, eval_key="calls", run_to_case=lambda r: r // 1000)],
                rule="cases = root kind x option tuple (TLC product of spec/Distiller.tla) x rich document x page URL class (incl. odd URLs); "
                     "non-trivial = calls that returned a result (the others returned an error)",
                nontrivial_key="returned_result", assumptions=ASSUME, exhaustive_tiers=()),
}

TEXT = {}
