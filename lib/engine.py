"""Engine of vcheck: TLC design check + case generation -> real-code runs -> TLC trace
validation -> reproduction -> verdict -> evidence.  See DESIGN.md sections 5 and 6."""
import zlib
import sys, os, json, re, subprocess, time, shutil, tempfile, random, hashlib, glob
from concurrent.futures import ThreadPoolExecutor

JAVA_CP = "/opt/veriftools/tla/tla2tools.jar:/opt/veriftools/tla/CommunityModules-deps.jar"
GOENV = dict(GOFLAGS="-mod=mod", GOPROXY="off", GOSUMDB="off", GOTOOLCHAIN="local")
NCPU = os.cpu_count() or 4


class Infra(Exception):
    """infrastructure trouble: exit 2, never a violation"""


def log(*a):
    print(*a, flush=True)


# ------------------------------------------------------------------ build
REPO = os.environ.get("VERIF_REPO", "/repo")


def build_driver(root, race=False):
    """(re)build the conformance driver against the repository's current working tree
    (/repo; VERIF_REPO=<dir> points the build at a scratch copy for self-tests)."""
    out = os.path.join(root, ".build", "vdrive-race" if race else "vdrive")
    os.makedirs(os.path.dirname(out), exist_ok=True)
    env = dict(os.environ, **GOENV)
    h = os.path.join(root, "harness")
    tmp = None
    if REPO != "/repo":
        tmp = tempfile.mkdtemp(prefix="vharness-")
        shutil.copytree(h, os.path.join(tmp, "harness"))
        h = os.path.join(tmp, "harness")
        gm = open(os.path.join(h, "go.mod")).read().replace("=> /repo", "=> " + REPO)
        open(os.path.join(h, "go.mod"), "w").write(gm)
        out = out + "-alt"
    shutil.copyfile(os.path.join(REPO, "go.sum"), os.path.join(h, "go.sum"))
    cmd = ["go", "build", "-tags", "verif", "-o", out]
    if race:
        cmd.insert(2, "-race")
        env["CGO_ENABLED"] = "1"
    cmd.append(".")
    t0 = time.time()
    p = subprocess.run(cmd, cwd=h, env=env, stdout=subprocess.PIPE, stderr=subprocess.STDOUT, text=True)
    if tmp:
        shutil.rmtree(tmp, ignore_errors=True)
    if p.returncode != 0:
        raise Infra("driver build failed:\n" + p.stdout[-4000:])
    return out, time.time() - t0


# ------------------------------------------------------------------ TLC
def run_tlc(specdir, module, cfg, workdir, workers=1, heap="4g", env=None, extra=None, timeout=3600, tag="tlc"):
    """run TLC on specdir/<module>.tla with config <cfg>; returns (rc, output)"""
    md = tempfile.mkdtemp(prefix="md-", dir=workdir)
    cmd = ["java", "-XX:+UseParallelGC", "-Xmx" + heap, "-Xss64m", "-DTLA-Library=" + specdir,
           "-cp", JAVA_CP, "tlc2.TLC", "-workers", str(workers), "-metadir", md,
           "-config", cfg, "-noGenerateSpecTE"]
    if extra:
        cmd += extra
    cmd.append(module)
    e = dict(os.environ)
    if env:
        e.update(env)
    outpath = os.path.join(workdir, tag + "-" + os.path.basename(md) + ".out")
    with open(outpath, "w") as f:
        try:
            p = subprocess.run(cmd, cwd=specdir, env=e, stdout=f, stderr=subprocess.STDOUT, timeout=timeout)
            rc = p.returncode
        except subprocess.TimeoutExpired:
            rc = -9
    shutil.rmtree(md, ignore_errors=True)
    return rc, outpath


RX_STATES = re.compile(r"(\d+) states generated, (\d+) distinct states found")
RX_SIMSTATES = re.compile(r"The number of states generated: (\d+)")
RX_CASE = re.compile(r'^<<"@@CASE", "(.*)">>$')
RX_BAD = re.compile(r'^<<"@@BAD", "(.*)">>$')
RX_CRASH = re.compile(r'^<<"@@CRASH", "(.*)">>$')
RX_DRIFT = re.compile(r'^<<"@@DRIFT", "(.*)">>$')
RX_ERR = re.compile(r"^Error: |TLC threw|StackOverflowError|OutOfMemoryError|Exception in thread")


def tla_unquote(s):
    return json.loads('"' + s + '"')


def parse_states(path):
    gen = dist = 0
    with open(path, errors="replace") as f:
        for line in f:
            m = RX_STATES.search(line)
            if m:
                gen, dist = int(m.group(1)), int(m.group(2))
            m = RX_SIMSTATES.search(line)
            if m:
                gen = dist = int(m.group(1))
    return gen, dist


def tlc_errors(path, limit=12):
    errs = []
    with open(path, errors="replace") as f:
        lines = f.readlines()
    for i, line in enumerate(lines):
        if RX_ERR.search(line):
            errs.append("".join(lines[i:i + 6]))
            if len(errs) >= limit:
                break
    return errs


# ------------------------------------------------------------------ stages
def prepare_specdir(root, workdir):
    """copy the spec tree (flat) into the work dir so TLC litters nothing in /verif"""
    d = os.path.join(workdir, "spec")
    os.makedirs(d)
    for pat in ("spec/*.tla", "spec/*.cfg", "spec/gen/*.tla", "spec/gen/*.cfg",
                "spec/trace/*.tla", "spec/trace/*.cfg", "spec/design/*.tla", "spec/design/*.cfg"):
        for f in glob.glob(os.path.join(root, pat)):
            shutil.copy(f, d)
    return d


def generate_cases(ctx, stage):
    """TLC design check + case dump for one stage -> list of case dicts"""
    g = stage["gen"]
    tier = ctx["tier"]
    cases = []
    seen = set()
    gstates = gdist = 0
    runs = g["runs"][tier] if isinstance(g.get("runs"), dict) else g.get("runs", [])
    for r in runs:
        extra = []
        mode = r.get("mode", "bfs")
        workers = r.get("workers", NCPU)
        if mode == "simulate":
            extra = ["-simulate", "num=%d" % r["num"], "-depth", str(r["depth"]), "-seed", str(ctx["seed"] * 7919 + 13)]
            workers = 1
        t0 = time.time()
        rc, out = run_tlc(ctx["specdir"], r["module"], r["cfg"] + ".cfg", ctx["work"], workers=workers,
                          heap=r.get("heap", "8g"), extra=extra, timeout=r.get("timeout", 1800), tag="gen")
        gs, gd = parse_states(out)
        errs = tlc_errors(out)
        n0 = len(cases)
        keep = int(r.get("keep", 1))
        ndumped = 0
        with open(out, errors="replace") as f:
            for line in f:
                m = RX_CASE.match(line.rstrip("\n"))
                if not m:
                    continue
                raw = tla_unquote(m.group(1))
                ndumped += 1
                # keep=k: of the cases a big configuration dumps only every k-th is taken up (chosen by a hash of the case
                # and the seed, so the choice is the same in every run with that seed): TLC still checks the design
                # invariants in every state, the orchestrator just does not hold millions of cases in memory
                if keep > 1 and zlib.crc32(raw.encode()) % keep != ctx["seed"] % keep:
                    continue
                if raw in seen:
                    continue
                seen.add(raw)
                cases.append(json.loads(raw))
        log("  gen %-22s %-8s rc=%d states=%d distinct=%d cases=%d%s  %.1fs" %
            (r["cfg"], mode, rc, gs, gd, len(cases) - n0, (" (of %d dumped, keep=1/%d)" % (ndumped, keep)) if keep > 1 else "",
             time.time() - t0))
        if keep > 1:
            ctx["exhaustive"] = False
        if rc == 150 or any("Parsing or semantic analysis failed" in e for e in errs):
            raise Infra("TLC could not parse %s: %s" % (r["module"], " | ".join(e.strip()[:300] for e in errs[:2])))
        if r.get("expect_violation") and not any("is violated" in e for e in errs):
            raise Infra("defect config %s did not produce the expected counterexample (the toggle is vacuous?)" % r["cfg"])
        if errs and not r.get("expect_violation"):
            # an invariant violation of the DESIGN model (or a TLC failure)
            ctx["design_errors"].append({"cfg": r["cfg"], "errors": errs[:3]})
        if rc not in (0,) and not errs:
            raise Infra("TLC generation run %s failed rc=%d (see %s)" % (r["cfg"], rc, out))
        if mode == "bfs":
            gstates += gs
            gdist += gd
        else:
            ctx["sim_states"] += gs
        os.remove(out)
    ctx["states"] += gdist
    ctx["transitions"] += gstates
    # TLC prints the cases in the order its workers reach them: sort, so that sampling (seeded) and case ids are
    # the same in every run with the same seed
    cases.sort(key=lambda c: json.dumps(c, sort_keys=True))
    return cases


def sample_cases(ctx, stage, cases):
    lim = stage.get("sample", {}).get(ctx["tier"])
    gexp = stage.get("group_expand")
    if gexp:
        cases = gexp(cases, ctx)
    exp = stage.get("expand")
    if exp:
        out = []
        for c in cases:
            out.extend(exp(c, ctx))
        cases = out
    strat = stage.get("stratify")
    if lim and len(cases) > lim and strat:
        rnd = random.Random(ctx["seed"] * 1000003 + 7)
        groups = {}
        for c in cases:
            groups.setdefault(strat(c), []).append(c)
        quota = max(1, lim // len(groups))
        picked = []
        spare = []
        for k in sorted(groups):
            g = groups[k]
            rnd.shuffle(g)
            picked.extend(g[:quota])
            spare.extend(g[quota:])
        rnd.shuffle(spare)
        picked.extend(spare[: max(0, lim - len(picked))])
        cases = picked
        ctx["exhaustive"] = False
    elif lim and len(cases) > lim:
        rnd = random.Random(ctx["seed"] * 1000003 + 7)
        small = stage.get("always_small", 0)
        keep = [c for c in cases if len(c.get("nodes", [])) <= small] if small else []
        rest = [c for c in cases if not (small and len(c.get("nodes", [])) <= small)]
        if len(keep) > lim:
            keep = rnd.sample(keep, lim)
        k = max(0, lim - len(keep))
        cases = keep + rnd.sample(rest, min(k, len(rest)))
        ctx["exhaustive"] = False
    for i, c in enumerate(cases):
        c["id"] = i + 1
    return cases


def merge_orders(fwd, rev, outdir):
    """C11: the same groups were driven in forward and in reverse order (two processes per worker);
    put both histories of a group next to each other so that the trace spec's group memory compares them"""
    os.makedirs(outdir, exist_ok=True)
    merged = []
    for i, (fa, fb) in enumerate(zip(sorted(fwd), sorted(rev))):
        groups = {}
        order = []
        for path in (fa, fb):
            run2grp = {}
            with open(path) as f:
                for line in f:
                    ev = json.loads(line)
                    if ev.get("ev") == "Call":
                        run2grp[ev["run"]] = ev["grp"]
                    g = run2grp.get(ev.get("run"))
                    if g not in groups:
                        groups[g] = []
                        order.append(g)
                    groups[g].append(line)
        mp = os.path.join(outdir, "both-%02d.ndjson" % i)
        with open(mp, "w") as out:
            for g in order:
                out.writelines(groups[g])
        merged.append(mp)
    return merged


def drive(ctx, stage, cases, tag):
    """run the real code on the cases -> trace shards"""
    if stage.get("two_orders") and not ctx.get("_in_two_orders"):
        ctx["_in_two_orders"] = True
        try:
            st1, cpath = drive(ctx, stage, cases, tag + "-fwd")
            os.environ["VDRIVE_REVERSE"] = "1"
            try:
                st2, _ = drive(ctx, stage, cases, tag + "-rev")
            finally:
                del os.environ["VDRIVE_REVERSE"]
        finally:
            ctx["_in_two_orders"] = False
        outdir = os.path.join(ctx["work"], tag + "-both-traces")
        st = dict(st1)
        st["shards"] = merge_orders(st1["shards"], st2["shards"], outdir)
        for k in ("runs", "events", "panics", "hangs"):
            st[k] = st1[k] + st2[k]
        st["counter"] = {k: st1.get("counter", {}).get(k, 0) + st2.get("counter", {}).get(k, 0)
                         for k in set(st1.get("counter", {})) | set(st2.get("counter", {}))}
        shutil.rmtree(os.path.dirname(st1["shards"][0]), ignore_errors=True)
        shutil.rmtree(os.path.dirname(st2["shards"][0]), ignore_errors=True)
        return st, cpath
    cpath = os.path.join(ctx["work"], tag + "-cases.jsonl")
    with open(cpath, "w") as f:
        for c in cases:
            f.write(json.dumps(c, separators=(",", ":")) + "\n")
    outdir = os.path.join(ctx["work"], tag + "-traces")
    shards = stage.get("shards", 8)
    cmd = [ctx["driver"], "run", "-prop", stage.get("handler", ctx["prop"]), "-cases", cpath, "-out", outdir,
           "-seed", str(ctx["seed"]), "-tier", ctx["tier"], "-shards", str(shards), "-workers", str(NCPU)]
    t0 = time.time()
    p = subprocess.run(cmd, stdout=subprocess.PIPE, stderr=subprocess.PIPE, text=True, timeout=stage.get("drive_timeout", 3600))
    if p.returncode != 0:
        raise Infra("driver failed rc=%d: %s %s" % (p.returncode, p.stdout[-2000:], p.stderr[-2000:]))
    st = json.loads(p.stdout.strip().splitlines()[-1])
    log("  drive %s: runs=%d events=%d panics=%d hangs=%d %.1fs %s" %
        (tag, st["runs"], st["events"], st["panics"], st["hangs"], time.time() - t0, json.dumps(st.get("counter", {}))))
    return st, cpath


def validate(ctx, stage, shard_paths, tag):
    """TLC trace validation of every shard (in parallel) -> (bad, crashes, states)"""
    tr = stage["trace"]

    def one(path):
        if os.path.getsize(path) == 0:
            return path, 0, os.devnull
        rc, out = run_tlc(ctx["specdir"], tr["module"], tr["cfg"] + ".cfg", ctx["work"], workers=1,
                          heap=tr.get("heap", "3g"), env={"TRACE_FILE": path}, timeout=tr.get("timeout", 3600), tag="val")
        return path, rc, out

    # merge small shards: one TLC start per ~8 files is enough
    nval = stage.get("validators", 8)
    if len(shard_paths) > nval:
        merged = []
        for k in range(nval):
            mp = os.path.join(os.path.dirname(shard_paths[0]), "merged-%s-%02d.ndjson" % (tag, k))
            with open(mp, "wb") as out:
                for p in shard_paths[k::nval]:
                    with open(p, "rb") as f:
                        shutil.copyfileobj(f, out)
            merged.append(mp)
        shard_paths = merged
    bad, crashes = [], []
    vstates = 0
    t0 = time.time()
    with ThreadPoolExecutor(max_workers=min(8, max(1, NCPU // 2))) as ex:
        results = list(ex.map(one, shard_paths))
    for path, rc, out in results:
        if out == os.devnull:
            continue
        accepted = False
        with open(out, errors="replace") as f:
            for line in f:
                line = line.rstrip("\n")
                m = RX_BAD.match(line)
                if m:
                    bad.append(json.loads(tla_unquote(m.group(1))))
                    continue
                m = RX_CRASH.match(line)
                if m:
                    crashes.append(json.loads(tla_unquote(m.group(1))))
                    continue
                m = RX_DRIFT.match(line)
                if m:
                    ctx["drift"] += 1
                    if os.environ.get("VERIF_DRIFT_LOG"):
                        with open(os.environ["VERIF_DRIFT_LOG"], "a") as df:
                            df.write(tla_unquote(m.group(1)) + "\n")
                    if len(ctx["drift_samples"]) < 5:
                        ctx["drift_samples"].append(json.loads(tla_unquote(m.group(1))))
                    continue
                if line.startswith('<<"@@ACCEPTED"'):
                    accepted = True
        gs, gd = parse_states(out)
        vstates += gd
        if not accepted:
            errs = tlc_errors(out)
            keep = os.path.join(ctx["root"], ".work-last-rejected.out")
            shutil.copy(out, keep)
            raise Infra("trace %s not accepted by %s (rc=%d): %s  [TLC output kept at %s]" %
                        (os.path.basename(path), tr["module"], rc, " | ".join(e.strip()[:400] for e in errs[:2]), keep))
        os.remove(out)
    log("  validate %s: %d shards, %d trace states, bad=%d crashes=%d  %.1fs" %
        (tag, len(shard_paths), vstates, len(bad), len(crashes), time.time() - t0))
    ctx["trace_states"] += vstates
    return bad, crashes


def load_known(root):
    p = os.path.join(root, "known_findings.json")
    if not os.path.exists(p):
        return []
    with open(p) as f:
        return json.load(f).get("findings", [])


def finding_matches(fd, prop, b):
    if fd.get("status") != "known" or fd.get("property") != prop:
        return False
    if fd.get("inv") != b.get("inv"):
        return False
    return fd.get("class") == b.get("class")


def run_stage(ctx, stage):
    prop = ctx["prop"]
    if stage.get("skip_in_quick") and ctx["tier"] == "quick":
        return
    log("stage %s" % stage.get("name", "main"))
    cases = generate_cases(ctx, stage) if stage.get("gen") else []
    if stage.get("cases_py"):
        cases = cases + stage["cases_py"](ctx)
    if not stage.get("trace"):
        return
    ncases_total = len(cases)
    cases = sample_cases(ctx, stage, cases)
    if not cases:
        raise Infra("stage %s produced no cases" % stage.get("name", "main"))
    byid = {c["id"]: c for c in cases}
    r2c = stage.get("run_to_case", lambda r: r)
    st, cpath = drive(ctx, stage, cases, stage.get("name", "main"))
    ctx["evaluations"] += st.get("counter", {}).get(stage.get("eval_key", ""), st["runs"])
    ctx["cases_generated"] += ncases_total
    for k, v in st.get("counter", {}).items():
        ctx["counter"][k] = ctx["counter"].get(k, 0) + v
    if st["hangs"]:
        ctx["hangs"] += st["hangs"]
    bad, crashes = validate(ctx, stage, st["shards"], stage.get("name", "main"))
    other = [b for b in bad if not b["inv"].startswith(prop + "_")]
    bad = [b for b in bad if b["inv"].startswith(prop + "_")]
    if other:
        kinds = sorted({b["inv"] for b in other})
        ctx["other_property_failures"] = ctx.get("other_property_failures", 0) + len(other)
        log("  NOTE: %d runs failed predicates of OTHER properties (%s) - reported by their own checks, not here" %
            (len(other), ", ".join(kinds)))
        if os.environ.get("VERIF_SHOW_OTHER"):
            for b in other[:int(os.environ["VERIF_SHOW_OTHER"])]:
                log("    other: %s case=%s" % (json.dumps(b), json.dumps(byid.get(r2c(b["run"]), {}))[:400]))
    ctx["traces"] += st.get("counter", {}).get(stage.get("eval_key", ""), st["runs"])
    ctx["crashes"] += len(crashes)
    # samples for the evidence file
    if len(ctx["samples"]) < 3:
        for c in cases[:: max(1, len(cases) // 2)][:2]:
            ctx["samples"].append(show_case(ctx, stage, c))
    shutil.rmtree(os.path.dirname(st["shards"][0]), ignore_errors=True)
    if stage.get("crash_is_violation"):
        for c in crashes:
            bad.append({"run": c["run"], "inv": "C01_NoCrash", "class": c.get("ev", "Panic")})
    elif crashes:
        log("  NOTE: %d runs crashed (panic/hang) - reported by the C01 check, not judged here; e.g. case %s" %
            (len(crashes), json.dumps(byid.get(r2c(crashes[0]["run"])))[:300]))
    if not bad:
        return
    # ---- reproduce every failed run in a fresh process, then classify
    groups = {}
    for b in bad:
        groups.setdefault((b["inv"], b.get("class", "other")), []).append(b)
    known = load_known(ctx["root"])
    for (inv, cls), bs in sorted(groups.items()):
        bs = sorted(bs, key=lambda b: b["run"])
        probe = bs[: stage.get("repro_limit", 12)]
        rcases = list({r2c(b["run"]): dict(byid[r2c(b["run"])]) for b in probe}.values())
        rst, _ = drive(ctx, stage, rcases, "repro")
        rbad, rcr = validate(ctx, stage, rst["shards"], "repro")
        rbad = [b for b in rbad if b["inv"].startswith(prop + "_")]
        if stage.get("crash_is_violation"):
            for c in rcr:
                rbad.append({"run": c["run"], "inv": "C01_NoCrash", "class": c.get("ev", "Panic")})
        shutil.rmtree(os.path.dirname(rst["shards"][0]), ignore_errors=True)
        again = {b["run"] for b in rbad if b["inv"] == inv and b.get("class", "other") == cls}
        confirmed = [b for b in probe if b["run"] in again]
        if not confirmed:
            ctx["unreproduced"] += len(probe)
            log("  UNREPRODUCED: %s/%s failed in the sweep but not in a fresh process (%d runs) - not reported" %
                (inv, cls, len(probe)))
            continue
        b0 = confirmed[0]
        fd = next((f for f in known if finding_matches(f, prop, b0)), None)
        case = byid[r2c(b0["run"])]
        if fd is not None:
            msg = "KNOWN-FINDING: property=%s %s [%s/%s] %d runs, e.g. case %s" % (
                prop, fd.get("what", ""), inv, cls, len(bs), json.dumps(case, separators=(",", ":"))[:200])
            if msg not in ctx["known_lines"]:
                ctx["known_lines"].append(msg)
            ctx["known_hits"] += len(bs)
            continue
        rp = write_replay(ctx, stage, case, inv, cls, len(bs))
        ctx["violations"].append({"inv": inv, "class": cls, "runs": len(bs), "replay": rp})


def show_case(ctx, stage, case):
    cmd = [ctx["driver"], "show", "-prop", stage.get("handler", ctx["prop"]), "-seed", str(ctx["seed"]),
           "-tier", ctx["tier"], "-case", json.dumps(case)]
    try:
        p = subprocess.run(cmd, stdout=subprocess.PIPE, stderr=subprocess.DEVNULL, text=True, timeout=120)
        evs = [json.loads(l) for l in p.stdout.splitlines() if l.strip()]
    except Exception as e:  # noqa
        evs = []
    slim = {"case": case}
    for ev in evs:
        if ev.get("ev") == "Call":
            for k in ("html", "input", "inputs", "url", "opts", "entry"):
                if k in ev:
                    v = ev[k]
                    slim[k] = v[:1500] if isinstance(v, str) else v
        elif ev.get("ev") == "Return":
            o = json.dumps(ev.get("obs", ev))
            slim.setdefault("returns", []).append(o[:800])
    return slim


def write_replay(ctx, stage, case, inv, cls, nruns):
    d = os.path.join(ctx["root"], "replays")
    os.makedirs(d, exist_ok=True)
    h = hashlib.sha1(json.dumps([ctx["prop"], inv, cls, case], sort_keys=True).encode()).hexdigest()[:10]
    path = os.path.join(d, "%s-%s.json" % (ctx["prop"], h))
    rec = {"property": ctx["prop"], "inv": inv, "class": cls, "runs_failing": nruns, "tier": ctx["tier"],
           "seed": ctx["seed"], "stage": stage.get("name", "main"), "case": case,
           "shown": show_case(ctx, stage, case)}
    with open(path, "w") as f:
        json.dump(rec, f, indent=1)
    return path


# ------------------------------------------------------------------ check
def new_ctx(root, prop, tier, seed):
    work = tempfile.mkdtemp(prefix="vcheck-%s-" % prop)
    return dict(root=root, prop=prop, tier=tier, seed=seed, work=work, states=0, transitions=0, sim_states=0,
                trace_states=0, evaluations=0, traces=0, crashes=0, hangs=0, unreproduced=0, counter={},
                samples=[], violations=[], known_lines=[], known_hits=0, design_errors=[], exhaustive=True,
                cases_generated=0, extra={}, drift=0, drift_samples=[])


def check(root, props, prop, tier, seed):
    cfg = props[prop]
    ctx = new_ctx(root, prop, tier, seed)
    t0 = time.time()
    rc = 0
    try:
        ctx["driver"], bt = build_driver(root)
        log("built driver in %.1fs (from %s working tree, -tags verif)" % (bt, REPO))
        ctx["specdir"] = prepare_specdir(root, ctx["work"])
        for stage in cfg["stages"]:
            if tier not in stage.get("tiers", ("quick", "thorough")):
                continue
            if stage.get("custom"):
                stage["custom"](ctx, stage)
            else:
                run_stage(ctx, stage)
        if ctx["design_errors"]:
            # the DESIGN model violates its own invariant: our model is wrong or the
            # design is; nothing about the code follows - infrastructure.
            raise Infra("design-level TLC run reported errors: " + json.dumps(ctx["design_errors"])[:1500])
        for l in ctx["known_lines"]:
            log(l)
        if ctx["drift"]:
            log("DRIFT: %d model-vs-code differences outside the property predicates (not a violation), e.g. %s" %
                (ctx["drift"], json.dumps(ctx["drift_samples"][:2])[:600]))
        for v in ctx["violations"]:
            log("VIOLATION property=%s replay=%s" % (prop, v["replay"]))
            log("  (%s / %s, %d runs)" % (v["inv"], v["class"], v["runs"]))
            rc = 1
        if ctx["unreproduced"] and rc == 0 and not ctx["violations"]:
            log("note: %d unreproduced failures were ignored" % ctx["unreproduced"])
    except Infra as e:
        log("INFRASTRUCTURE: " + str(e))
        rc = 2
    finally:
        wall = time.time() - t0
        write_evidence(root, cfg, ctx, wall)
        shutil.rmtree(ctx["work"], ignore_errors=True)
    log("%s %s seed=%d: exit %d in %.1fs" % (prop, tier, seed, rc, wall))
    return rc


def write_evidence(root, cfg, ctx, wall):
    nontriv = cfg.get("nontrivial_key")
    dn = ctx["counter"].get(nontriv, 0) if nontriv else ctx["evaluations"]
    cov = {
        "states": max(1, ctx["states"]),
        "transitions": max(1, ctx["transitions"]),
        "traces_validated_against_impl": ctx["traces"],
        "samples": ctx["samples"] or [{"note": "no case was run"}],
        "evaluations": ctx["evaluations"],
        "distinct_nontrivial": dn,
        "rule": cfg.get("rule", ""),
        "exhaustive": bool(ctx["exhaustive"]) and not ctx["sim_states"] and ctx["tier"] in cfg.get("exhaustive_tiers", ()),
        "design_model_states_distinct": ctx["states"],
        "design_model_states_generated": ctx["transitions"],
        "simulation_states": ctx["sim_states"],
        "trace_validation_states": ctx["trace_states"],
        "cases_generated_by_tlc": ctx["cases_generated"],
        "crashed_runs_not_judged": ctx["crashes"],
        "unreproduced": ctx["unreproduced"],
        "known_finding_hits": ctx["known_hits"],
        "counters": ctx["counter"],
        "model_drift_events": ctx["drift"],
        "model_drift_samples": ctx["drift_samples"],
    }
    cov.update(ctx.get("extra", {}))
    ev = {
        "property_id": ctx["prop"], "tier": ctx["tier"], "seed": ctx["seed"], "level": "model_checking",
        "coverage": cov, "assumptions": cfg.get("assumptions", []), "wall_s": round(wall, 2),
        "violations": len(ctx["violations"]),
    }
    d = os.path.join(root, "evidence")
    os.makedirs(d, exist_ok=True)
    with open(os.path.join(d, ctx["prop"] + ".json"), "w") as f:
        json.dump(ev, f, indent=1)


def replay(root, props, path):
    with open(path) as f:
        rec = json.load(f)
    prop = rec["property"]
    cfg = props[prop]
    stage = next(s for s in cfg["stages"] if s.get("name", "main") == rec.get("stage", "main"))
    ctx = new_ctx(root, prop, rec.get("tier", "quick"), rec.get("seed", 1))
    try:
        ctx["driver"], _ = build_driver(root)
        ctx["specdir"] = prepare_specdir(root, ctx["work"])
        case = dict(rec["case"])
        st, _ = drive(ctx, stage, [case], "replay")
        bad, crashes = validate(ctx, stage, st["shards"], "replay")
        if stage.get("crash_is_violation"):
            for c in crashes:
                bad.append({"run": c["run"], "inv": "C01_NoCrash", "class": c.get("ev", "Panic")})
        hit = [b for b in bad if b["inv"] == rec["inv"]]
        log(json.dumps(show_case(ctx, stage, case))[:3000])
        if hit:
            log("VIOLATION property=%s replay=%s" % (prop, path))
            return 1
        log("replay: %s holds on the current tree for this case" % rec["inv"])
        return 0
    except Infra as e:
        log("INFRASTRUCTURE: " + str(e))
        return 2
    finally:
        shutil.rmtree(ctx["work"], ignore_errors=True)


def main(root, props, argv):
    if not argv:
        print(__doc__)
        return 2
    if argv[0] == "build":
        try:
            out, bt = build_driver(root)
            log("built %s in %.1fs" % (out, bt))
            return 0
        except Infra as e:
            log("INFRASTRUCTURE: " + str(e))
            return 2
    if argv[0] == "replay":
        return replay(root, props, argv[1])
    prop = argv[0]
    tier = argv[1] if len(argv) > 1 else os.environ.get("VERIF_TIER", "quick")
    seed = int(os.environ.get("VERIF_SEED", "1") or 1)
    if prop not in props:
        log("unknown property " + prop)
        return 2
    return check(root, props, prop, tier, seed)
