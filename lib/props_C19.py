"""C19: third-party frames survive only for allow-listed services, with the right id.

Design model spec/Embed.tla (allow-list on the parsed host, expected placeholder, extractor
order machine), generator spec/gen/MC_C19 + C19_steps / C19_full, handler harness/fam_embed.go,
trace specification spec/trace/EmbedTrace.tla.

Measured (16 cores): C19_steps 54 282 states in 3 s; C19_full 192 604 states / 47 576 cases in 8 s;
C19_wide 497 524 states / 123 806 cases in 10 s.
"""
from propdefs import bfs, sim


def _stratum(c):
    p = c.get("p", {})
    return "%s|%s|%s|%s" % (p.get("carrier"), p.get("host"), p.get("root"), c.get("x"))


PROPS = {"C19": dict(
    stages=[
        dict(name="order", gen=dict(runs=dict(quick=[bfs("MC_C19", "C19_steps")], thorough=[bfs("MC_C19", "C19_steps")]))),
        dict(name="main",
             gen=dict(runs=dict(quick=[bfs("MC_C19", "C19_full")], thorough=[bfs("MC_C19", "C19_wide", timeout=900)])),
             sample=dict(quick=12000, thorough=None),
             stratify=_stratum,
             trace=dict(module="EmbedTrace", cfg="EmbedTrace")),
    ],
    rule="cases = carrier (iframe, iframe with data-tweet-id, object data/param, tweet blockquote +-class +-anchor) x source URL "
         "(scheme kind x userinfo x host shape x root x path shape x query x fragment) of spec/Embed.tla, each built as a real "
         "element between two retained paragraphs, 3 runs in 4 with a neutral page URL; quick = stratified sample over "
         "(carrier, host shape, root, expected service), thorough = the whole product; non-trivial = the real run produced "
         "an embed placeholder; counters give carrier / root / host-shape / placeholder-type coverage",
    nontrivial_key="placeholder",
    assumptions=[
        "Expected is evaluated by TLC on the source as measured on the parsed tree handed to Apply: carrier tag, twitter-tweet class "
        "token, data-tweet-id, where the URL is written (iframe src; object data when type is application/x-shockwave-flash, else "
        "<param name=movie>; href of the last anchor of a blockquote) and the URL split lexically per RFC 3986 appendix B "
        "(harness/fam_embed.go splitURL); DRIFT if it differs from Embed!Build(f)",
        "hosts are lower-case sequences of non-empty labels without port, trailing dot or IP literal; the statement is silent on others, none is generated",
        "the page URL, when given, is on a neutral host (news.example.org), so a relative source never resolves to an allow-listed host",
        "not generated / not judged (statement silent or ambiguous, Embed!Silent): a path whose last non-empty segment is a reserved "
        "word other than the service's own (/video/ or /v/ on YouTube, /embed/ or /v/ on Vimeo, any of embed/video/v as a tweet id); "
        "an object whose source is on Vimeo or Twitter; an object with data but without the flash type; '&' used instead of '?'; "
        "blockquotes whose last anchor is on another allow-listed service",
        "the 'if' direction of C19_PlaceholderIffAllowed (an allow-listed source with an id does get a placeholder) is the reading of "
        "DESIGN.md 7 C19; the statement itself only says 'only if'. It presupposes that the carrier follows a retained paragraph (it does: 70 words)",
        "quick tier: hosts that are not allow-listed are combined with 4 of the 15 path shapes only (Embed!SmallPaths), allow-listed ones "
        "with all of them; thorough tier: every path shape on every host (spec/gen/C19_wide.cfg)",
    ],
    exhaustive_tiers=("thorough",),
)}

TEXT = {"C19": dict(
    level="TLC checks, for every case of the carrier x source-URL product (123 806 cases in the thorough tier, 47 576 in quick: 8 carriers, 5 scheme kinds, 3 userinfo shapes, "
          "8 host shapes incl. the look-alikes root.evil.example / evilroot / root-evil.example / name in userinfo, path, query, fragment, "
          "4 roots, 15 path shapes, 3 query and 3 fragment shapes, with and without a page URL), that the extractor-order machine "
          "(image, twitter, vimeo, youtube; tag tables, attribute read, root-domain test on the parsed host, id rule) yields exactly the "
          "placeholder the property text demands, and only for allow-listed parsed hosts. Every case is then built as a real page, Apply "
          "is run, and TLC validates the placeholders and surviving frames of Result.Node against Expected computed from the source as "
          "measured on the parsed tree. Exhaustive over the stated product in the thorough tier, stratified sample of 12 000 in quick.",
    ref="DESIGN.md 7 C19",
    note="trusted base: TLC 1.8; spec/Embed.tla Allowed/Expected (transcribed from the property text); the lexical RFC 3986 split in "
         "harness/fam_embed.go (re-checked against Embed!Build per run, DRIFT otherwise); lower-case hosts without ports only",
    technique="TLA+ decision model (allow-list + extractor order) + TLC exhaustive product; real-code runs validated by TLC against spec/trace/EmbedTrace.tla")}
