#!/usr/bin/env python3
"""writes /verif/MANIFEST.json from the table below (kept next to the engine so that the
manifest always matches what vcheck can run)"""
import json, os, sys
ROOT = os.path.dirname(os.path.dirname(os.path.abspath(__file__)))
sys.path.insert(0, os.path.join(ROOT, "lib"))
from props import PROPS, EXTRA_TEXT
from manifest_text import TEXT, NOT_APPLICABLE
TEXT = dict(TEXT)
TEXT.update(EXTRA_TEXT)

BASE = "cd /repo && GOFLAGS=-mod=mod GOPROXY=off GOSUMDB=off go test -vet=off -count=1 -timeout 25m ./..."
checks = []
for pid in sorted(PROPS):
    t = TEXT[pid]
    checks.append({
        "property_id": pid,
        "quick_cmd": "./vcheck %s quick" % pid,
        "thorough_cmd": "./vcheck %s thorough" % pid,
        "evidence_file": "/verif/evidence/%s.json" % pid,
        "replay_cmd_template": "./vcheck replay {path}",
        "engine": "vcheck",
        "level_claimed": {"category": "model_checking", "text": t["level"], "design_ref": t["ref"]},
        "level_note": t["note"],
        "technique": t["technique"],
    })
m = {
    "version": 1,
    "setup_cmd": "./vcheck build",
    "hooks": {
        "guard": "verif",
        "enable": "go build -tags verif (the conformance driver in /verif/harness is built with -tags verif against /repo's working tree via a replace directive)",
        "baseline_off_cmd": BASE,
        "source_commits": json.load(open(os.path.join(ROOT, "lib", "hook_commits.json"))) if os.path.exists(os.path.join(ROOT, "lib", "hook_commits.json")) else [],
        "add_only": True,
    },
    "engines": [
        {"name": "vcheck", "path": "/verif/vcheck", "serves_properties": sorted(PROPS),
         "kind_free_text": "python orchestrator: TLC design check + case generation (spec/gen), Go conformance driver on the real code (harness/), TLC trace validation (spec/trace), reproduction, evidence"},
        {"name": "tlc", "path": "/opt/veriftools/tla/tla2tools.jar", "serves_properties": sorted(PROPS),
         "kind_free_text": "TLC 1.8 explicit-state model checker: exhaustive design models and trace validation"},
        {"name": "vdrive", "path": "/verif/harness", "serves_properties": sorted(PROPS),
         "kind_free_text": "Go driver: concretises TLC-generated abstract cases, runs the public entry points of /repo, writes ndjson traces (projection only, no verdicts)"},
    ],
    "checks": checks,
    "notes": "Model-based verification with an explicit TLA+ specification (spec/). See DESIGN.md.",
    "not_applicable": [{"property_id": k, "reason": v} for k, v in sorted(NOT_APPLICABLE.items()) if k not in PROPS],
}
json.dump(m, open(os.path.join(ROOT, "MANIFEST.json"), "w"), indent=1)
print("MANIFEST.json:", len(checks), "checks,", len(m["not_applicable"]), "not applicable")
