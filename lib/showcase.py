#!/usr/bin/env python3
"""showcase.py <PROP> <stage-name> <case-id> [tier] [seed]: regenerate the cases of a stage exactly as the check does,
and show the concrete input and observation of one case (debugging aid for DRIFT / replay work)."""
import sys, os, json, shutil
ROOT = os.path.dirname(os.path.dirname(os.path.abspath(__file__)))
sys.path.insert(0, os.path.join(ROOT, "lib"))
import engine, props

prop, sname, cid = sys.argv[1], sys.argv[2], int(sys.argv[3])
tier = sys.argv[4] if len(sys.argv) > 4 else "quick"
seed = int(sys.argv[5]) if len(sys.argv) > 5 else int(os.environ.get("VERIF_SEED", "1"))
ctx = engine.new_ctx(ROOT, prop, tier, seed)
ctx["driver"], _ = engine.build_driver(ROOT)
ctx["specdir"] = engine.prepare_specdir(ROOT, ctx["work"])
for st in props.PROPS[prop]["stages"]:
    if st.get("name", "main") != sname:
        continue
    cases = engine.generate_cases(ctx, st) if st.get("gen") else []
    if st.get("cases_py"):
        cases += st["cases_py"](ctx)
    cases = engine.sample_cases(ctx, st, cases)
    for c in cases:
        if c["id"] == cid:
            print(json.dumps(engine.show_case(ctx, st, c), indent=1)[:20000])
shutil.rmtree(ctx["work"], ignore_errors=True)
