import json
import zlib
"""Per-property configuration of vcheck: which TLC generation runs, which driver
handler, which trace specification.  Bounds are fitted to measured state counts
(DESIGN.md section 10)."""


from propdefs import bfs, sim


DOC_TRACE = dict(module="DocTrace", cfg="DocTrace")

DOC_ASSUME = [
    "source-side facts are computed by harness/ref.go from the parsed tree handed to Apply (independent of the distiller)",
    "words are unique alphanumeric tokens; punctuation-only and CJK text are outside the generated domain",
    "TLC 1.8 evaluates the predicates of spec/DocProps.tla on every recorded run",
]


def wraps_c03(case, ctx):
    """C03: every generated paragraph is placed in body/li/blockquote/layout-table cell"""
    ws = ["none", "li", "bq", "td", "dtd", "tdbare", "libare"]
    if ctx["tier"] == "thorough":
        return [dict(case, p={"wrap": w}) for w in ws]
    w = ws[(zlib.crc32(json.dumps(case["nodes"], sort_keys=True).encode()) + ctx["seed"]) % len(ws)]
    return [dict(case, p={"wrap": w})]


def doc_prop(pid, quick, thorough, sample_quick, sample_thorough, rule, nontrivial_key, expand=None, small=3, design=None):
    return dict(
        stages=([dict(name="design", gen=dict(runs=design))] if design else []) + [dict(
            name="main",
            gen=dict(runs=dict(quick=quick, thorough=thorough)),
            sample=dict(quick=sample_quick, thorough=sample_thorough),
            always_small=small,
            expand=expand,
            trace=DOC_TRACE,
        )],
        rule=rule,
        nontrivial_key=nontrivial_key,
        assumptions=DOC_ASSUME,
        exhaustive_tiers=(),
    )


PROPS = {}

def wraps_c02(case, ctx):
    """C02: the generated forest also sits in a list item, a quote or a layout-table cell (text blocks there are
    rendered without a wrapper of their own)"""
    ws = ["none", "none", "li", "bq", "td"]
    if ctx["tier"] == "thorough":
        return [dict(case, p={"wrap": w}) for w in ("none", "li", "bq")]
    w = ws[(zlib.crc32(json.dumps(case["nodes"], sort_keys=True).encode()) + ctx["seed"]) % len(ws)]
    return [dict(case, p={"wrap": w})]


PROPS["C02"] = doc_prop(
    "C02",
    quick=[bfs("MC_C02", "C02_quick"), bfs("MC_C02", "C02_flat"), bfs("MC_C03", "C03_quick"), sim("MC_C02", "C02_sim", 400, 14)],
    thorough=[bfs("MC_C02", "C02_thorough"), bfs("MC_C02", "C02_flat"), bfs("MC_C03", "C03_thorough"), sim("MC_C02", "C02_sim", 6000, 22)],
    expand=wraps_c02,
    sample_quick=20000, sample_thorough=700000,
    rule="cases = abstract documents enumerated by TLC (spec/gen/MC_C02 BFS to the bound, all paragraph child sequences of spec/gen/MC_C03, then -simulate); "
         "non-trivial = the real run retained some source words and dropped others",
    nontrivial_key="kept_and_dropped",
    design=dict(quick=[bfs("MC_Convert", "Convert_q")], thorough=[bfs("MC_Convert", "Convert_t", timeout=3000)]))

# C07 and C02: the rendering stage (spec/Render.tla): design-level theorems for every document x every flag assignment,
# a defect toggle that must fail, and the fidelity replay of the real distilled HTML (spec/trace/RenderTrace.tla)
def _render_stages():
    design = dict(name="render-design",
                  gen=dict(runs=dict(quick=[bfs("MC_Render", "Render_q"), bfs("MC_Render", "Render_defect", expect_violation=True)],
                                     thorough=[bfs("MC_Render", "Render_t", timeout=3000, workers=8),
                                               bfs("MC_Render", "Render_defect", expect_violation=True)])))
    fid = dict(name="render-fidelity", handler="REND",
               gen=dict(runs=dict(quick=[bfs("MC_C07", "C07_quick"), bfs("MC_C02", "C02_flat")],
                                  thorough=[bfs("MC_C07", "C07_thorough"), bfs("MC_C02", "C02_flat"), bfs("MC_C02", "C02_quick")])),
               sample=dict(quick=1000, thorough=8000),
               trace=dict(module="RenderTrace", cfg="RenderTrace"))
    return [design, fid]


# C02 also replays the builder calls of the real converter against Convert.tla (fidelity: DRIFT only)
PROPS["C02"]["stages"].append(dict(
    name="convert-fidelity", handler="CONV",
    gen=dict(runs=dict(quick=[bfs("MC_C02", "C02_quick")], thorough=[bfs("MC_C02", "C02_thorough")])),
    sample=dict(quick=4000, thorough=60000), always_small=3,
    trace=dict(module="ConvertTrace", cfg="ConvertTrace")))

PROPS["C03"] = doc_prop(
    "C03",
    quick=[bfs("MC_C03", "C03_quick")],
    thorough=[bfs("MC_C03", "C03_thorough")],
    sample_quick=60000, sample_thorough=200000,   # every run is also checked step by step against TextFilters.tla (Blocks)
    rule="cases = every child sequence of a paragraph up to the bound over {text, ws, br, inline, link, js link, font} "
         "x placement; non-trivial = the page had a simple paragraph with >= 2 word-bearing text nodes",
    nontrivial_key="para_multi", expand=wraps_c03, small=4,
    design=dict(quick=[bfs("MC_Convert", "ConvertPara_q"), bfs("MC_Convert", "ConvertPara_defect", expect_violation=True),
                       bfs("MC_TextFilters", "TextFilters_q")],
                thorough=[bfs("MC_Convert", "ConvertPara_t", timeout=3000), bfs("MC_Convert", "ConvertPara_defect", expect_violation=True),
                          bfs("MC_TextFilters", "TextFilters_t", timeout=3000)]))

PROPS["C04"] = doc_prop(
    "C04",
    quick=[bfs("MC_C04", "C04_quick")],
    thorough=[bfs("MC_C04", "C04_thorough")],
    sample_quick=16000, sample_thorough=400000,
    rule="cases = documents placing hidden / script-like / form-like content at every position; "
         "non-trivial = the source had never-shown or skip-class words AND the run produced output",
    nontrivial_key="hidden_and_output",
    design=dict(quick=[bfs("MC_Convert", "Convert_q")], thorough=[bfs("MC_Convert", "Convert_t", timeout=3000)]))

PROPS["C05"] = doc_prop(
    "C05",
    quick=[bfs("MC_C05", "C05_quick")],
    thorough=[bfs("MC_C05", "C05_thorough")],
    sample_quick=12000, sample_thorough=300000,
    rule="cases = documents over all element kinds, every element decorated with random on*/id/class/style/data-* noise; "
         "non-trivial = the output has at least 3 elements",
    nontrivial_key="out_elements")

PROPS["C07"] = doc_prop(
    "C07",
    quick=[bfs("MC_C07", "C07_quick"), sim("MC_C07", "C07_sim", 1500, 12)],
    thorough=[bfs("MC_C07", "C07_thorough"), sim("MC_C07", "C07_sim", 20000, 12)],
    sample_quick=24000, sample_thorough=500000,
    rule="cases = all nestings of ul/ol/li/blockquote/pre up to the bound with kept/dropped leaves; "
         "non-trivial = a retained word has a non-empty nest chain",
    nontrivial_key="chain_kept", small=4,
    design=dict(quick=[bfs("MC_DocFilters", "DocFilters_q"), bfs("MC_Convert", "Convert_q")],
                thorough=[bfs("MC_DocFilters", "DocFilters_t", timeout=3000), bfs("MC_Convert", "Convert_t", timeout=3000)]))

PROPS["C08"] = doc_prop(
    "C08",
    quick=[bfs("MC_C08", "C08_quick"), bfs("MC_C08", "C08_linked"), sim("MC_C08", "C08_sim", 1500, 12)],
    thorough=[bfs("MC_C08", "C08_thorough"), bfs("MC_C08", "C08_linked"), sim("MC_C08", "C08_sim", 20000, 12)],
    sample_quick=24000, sample_thorough=500000,
    rule="cases = all interleavings of kept/dropped text with media up to the bound; "
         "non-trivial = the page had media and both retained and dropped text",
    nontrivial_key="media_mixed", small=4,
    design=dict(quick=[bfs("MC_DocFilters", "DocFilters_q"), bfs("MC_Convert", "Convert_q"),
                       bfs("MC_Convert", "ConvertEmpty_defect", expect_violation=True)],
                thorough=[bfs("MC_DocFilters", "DocFilters_t", timeout=3000), bfs("MC_Convert", "Convert_t", timeout=3000),
                          bfs("MC_Convert", "ConvertEmpty_defect", expect_violation=True)]))

def _c09_wordcount_stage():
    from props_C20 import reps
    return dict(name="wordcount", handler="C20",
                gen=dict(runs=dict(quick=[bfs("MC_C20", "C20_quick")], thorough=[bfs("MC_C20", "C20_thorough")])),
                expand=reps, sample=dict(quick=None, thorough=None),
                trace=dict(module="CallsTrace", cfg="CallsTrace"), eval_key="calls", run_to_case=lambda r: r // 1000)


PROPS["C09"] = doc_prop(
    "C09",
    quick=[bfs("MC_C09", "C09_quick"), bfs("MC_C09", "C09_tables"), bfs("MC_C09", "C09_items")],
    thorough=[bfs("MC_C09", "C09_thorough"), bfs("MC_C09", "C09_tables"), bfs("MC_C09", "C09_items")],
    sample_quick=16000, sample_thorough=300000,
    rule="cases = documents over all element kinds, plus layout / data tables with text, inline elements and images in their cells; "
         "non-trivial = the run produced output words",
    nontrivial_key="with_output")


def places_c18(case, ctx):
    """C18: every vector at four placements (thorough) / one rotating placement (quick)"""
    ps = ["body", "div", "li", "ltcell"]
    if ctx["tier"] == "thorough":
        return [dict(p=dict(case["p"], place=pl), r=case.get("r", "")) for pl in ps]
    pl = ps[(zlib.crc32(json.dumps(case["p"], sort_keys=True).encode()) + ctx["seed"]) % 4]
    return [dict(p=dict(case["p"], place=pl), r=case.get("r", ""))]


PROPS["C18"] = dict(
    stages=[
        dict(name="rules", gen=dict(runs=dict(quick=[bfs("MC_C18", "C18_steps")], thorough=[bfs("MC_C18", "C18_steps")]))),
        dict(name="main",
             gen=dict(runs=dict(quick=[bfs("MC_C18", "C18_quick")], thorough=[bfs("MC_C18", "C18_full", timeout=3000, heap="16g")])),
             sample=dict(quick=14000, thorough=600000),
             expand=places_c18,
             stratify=lambda c: c.get("r", ""),
             trace=dict(module="TableTrace", cfg="TableTrace")),
    ],
    rule="cases = feature vectors of the table classifier (TableClass!Features), each built as a real table after a retained "
         "paragraph; non-trivial = the real classifier visited the table (hook event seen); counters give verdict/reason coverage",
    nontrivial_key="visited",
    assumptions=[
        "the verdict of the real classifier is read from the verif hook events TableClass/TableInfo (build tag verif)",
        "feature values where the statement is silent are not generated: header cells without text, roles inside nested tables",
        "the table is built as TableClass!Build(f) describes; the harness re-measures tr/td counts on the parsed tree (DRIFT if they differ)",
    ],
    exhaustive_tiers=("thorough",),
)


# ---- per-property modules lib/props_<ID>.py: each defines PROPS = {ID: cfg} and TEXT = {ID: manifest text}
import glob as _glob, importlib as _importlib, os as _os
EXTRA_TEXT = {}
for _f in sorted(_glob.glob(_os.path.join(_os.path.dirname(_os.path.abspath(__file__)), "props_C*.py"))):
    _m = _importlib.import_module(_os.path.splitext(_os.path.basename(_f))[0])
    PROPS.update(_m.PROPS)
    EXTRA_TEXT.update(getattr(_m, "TEXT", {}))

def _c09_strata(c):
    """sampling strata of the C09 documents: which generator family, and whether an inline element sits among the texts"""
    ns = c.get("nodes", [])
    ks = [n["k"] for n in ns]
    # layout tables with two or more cells that hold nothing but an inline element: few, all kept
    for i, n in enumerate(ns):
        if n["k"] == "LT":
            cells = [m["k"] for m in ns[i + 1:] if m["d"] == n["d"] + 1]
            if sum(1 for k in cells if k in ("INL", "A")) >= 2:
                return "inline-cells"
    fam = "items" if ks and ks[0] == "UL" else ("tables" if any(k in ("LT", "DT") for k in ks) else "other")
    return fam + ("+inline" if any(k in ("INL", "A") for k in ks) else "")


[_s for _s in PROPS["C09"]["stages"] if _s.get("name", "main") == "main"][0]["stratify"] = _c09_strata

# C09, word-count clause: title-less text-only pages with and without unlikely subtrees on both sides of the
# two-pass threshold (the pages of C20), judged by C09_WordCountMatchesText in CallsTrace
PROPS["C09"]["stages"].append(_c09_wordcount_stage())
# ... and the rich documents of the call-history families (odd titles, pagers, tables, images): the same predicate
# is evaluated on every Return there, and is reported here
import props_C01 as _pc01
PROPS["C09"]["stages"].append(dict(_pc01.stage(_pc01.c11_groups, 120, 3000), name="richdocs", handler="C11"))
# C09 / C02: the two views and the word count as a model (spec/TextView.tla): theorems for every document x every
# assignment of tight edges, the three defect toggles must fail
PROPS["C09"]["stages"].insert(0, dict(name="textview-design", gen=dict(runs=dict(
    quick=[bfs("MC_TextView", "TextView_q"), bfs("MC_TextView", "TextView_asis"), bfs("MC_TextView", "TextView_flags"),
           bfs("MC_TextView", "TextView_defect29", expect_violation=True), bfs("MC_TextView", "TextView_defect31", expect_violation=True),
           bfs("MC_TextView", "TextView_finding", expect_violation=True)],
    thorough=[bfs("MC_TextView", "TextView_q"), bfs("MC_TextView", "TextView_t", timeout=3000, workers=8),
              bfs("MC_TextView", "TextView_flags_t", timeout=3000, workers=8),
              bfs("MC_TextView", "TextView_defect29", expect_violation=True), bfs("MC_TextView", "TextView_defect31", expect_violation=True),
              bfs("MC_TextView", "TextView_finding", expect_violation=True)]))))
def _c08_strata(c):
    """sampling strata of the C08 documents: paragraphs holding words and then two or more media (small galleries) are few
    among the enumerated documents and are all kept"""
    ns = c.get("nodes", [])
    for i, n in enumerate(ns):
        if n["k"] != "P":
            continue
        kids = []
        for m in ns[i + 1:]:
            if m["d"] <= n["d"]:
                break
            if m["d"] == n["d"] + 1:
                kids.append(m["k"])
        if "T" in kids and sum(1 for k in kids[kids.index("T"):] if k in ("IMG", "VID", "EMB")) >= 2:
            return "gallery"
    return "other"


[_s for _s in PROPS["C08"]["stages"] if _s.get("name", "main") == "main"][0]["stratify"] = _c08_strata

# C08: the order of the document filters (relevant elements -> lead image -> nested elements) is part of every call's trace
PROPS["C08"]["stages"].append(dict(_pc01.stage(_pc01.c11_groups, 60, 1500), name="filter-order", handler="C11"))


PROPS["C07"]["stages"] += _render_stages()
PROPS["C02"]["stages"] += _render_stages()[1:]

# C01, crash stages: the inputs of every other family are also totality tests. Without these stages a panic on,
# say, a generated table would only be logged by C18 as "crashed, judged by C01" while C01 never sees that input.
_SLOW_GEN = {"PN_q2_q", "C14_quick", "C17_conv", "C18_quick", "C19_full", "PN_grid_q", "C15_q_all", "C15_q_colon", "C15_q_seplong", "C16_q3"}


def _crash_stage(pid, st, quick_n, thorough_n):
    """quick: only the generator configs that take a few seconds; thorough: all of the family's quick configs"""
    runs = st["gen"]["runs"]
    q = runs["quick"] if isinstance(runs, dict) else runs
    q = [r for r in q if not r.get("expect_violation")]
    fast = [r for r in q if r["cfg"] not in _SLOW_GEN and r.get("mode", "bfs") == "bfs"]
    s = dict(st)
    s.update(name="crash-" + pid + "-" + st.get("name", "main"), handler=st.get("handler", pid),
             gen=dict(runs=dict(quick=fast, thorough=q)), sample=dict(quick=quick_n, thorough=thorough_n),
             crash_is_violation=True, two_orders=False, skip_in_quick=not fast)
    return s


for _pid, _qn, _tn in (("C04", 1500, 16000), ("C05", 1500, 12000), ("C07", 1500, 24000), ("C08", 1500, 24000), ("C03", 1500, 30000),
                       ("C06", 1500, 3000), ("C14", 1000, 3000), ("C15", 1500, 6000), ("C16", 3000, 40000), ("C17", 1500, 16000),
                       ("C18", 2000, 14000), ("C19", 2000, 12000), ("C20", 1000, None)):
    for _st in PROPS[_pid]["stages"]:
        if _st.get("trace") and _st.get("gen") and _st.get("name", "main") in ("main", "pagenumber-model"):
            PROPS["C01"]["stages"].append(_crash_stage(_pid, _st, _qn, _tn))
