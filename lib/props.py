"""Per-property configuration of vcheck: which TLC generation runs, which driver
handler, which trace specification.  Bounds are fitted to measured state counts
(DESIGN.md section 10)."""


def bfs(module, cfg, **kw):
    d = dict(module=module, cfg=cfg, mode="bfs")
    d.update(kw)
    return d


def sim(module, cfg, num, depth, **kw):
    d = dict(module=module, cfg=cfg, mode="simulate", num=num, depth=depth)
    d.update(kw)
    return d


DOC_TRACE = dict(module="DocTrace", cfg="DocTrace")

DOC_ASSUME = [
    "source-side facts are computed by harness/ref.go from the parsed tree handed to Apply (independent of the distiller)",
    "words are unique alphanumeric tokens; punctuation-only and CJK text are outside the generated domain",
    "TLC 1.8 evaluates the predicates of spec/DocProps.tla on every recorded run",
]


def wraps_c03(case, ctx):
    """C03: every generated paragraph is placed in body/li/blockquote/layout-table cell"""
    ws = ["none", "li", "bq", "td", "dtd"]
    if ctx["tier"] == "thorough":
        return [dict(case, p={"wrap": w}) for w in ws]
    w = ws[(hash(str(case["nodes"])) + ctx["seed"]) % len(ws)]
    return [dict(case, p={"wrap": w})]


def doc_prop(pid, quick, thorough, sample_quick, sample_thorough, rule, nontrivial_key, expand=None, small=3):
    return dict(
        stages=[dict(
            name="main",
            gen=dict(runs=dict(quick=quick, thorough=thorough)),
            sample=dict(quick=sample_quick, thorough=sample_thorough),
            always_small=small,
            expand=expand,
            trace=DOC_TRACE,
        )],
        rule=rule,
        nontrivial_key=nontrivial_key,
        assumptions=DOC_ASSUME,
        exhaustive_tiers=(),
    )


PROPS = {}

PROPS["C02"] = doc_prop(
    "C02",
    quick=[bfs("MC_C02", "C02_quick"), sim("MC_C02", "C02_sim", 400, 14)],
    thorough=[bfs("MC_C02", "C02_thorough"), sim("MC_C02", "C02_sim", 6000, 22)],
    sample_quick=16000, sample_thorough=None,
    rule="cases = abstract documents enumerated by TLC (spec/gen/MC_C02, BFS to the bound, then -simulate); "
         "non-trivial = the real run retained some source words and dropped others",
    nontrivial_key="kept_and_dropped")

PROPS["C03"] = doc_prop(
    "C03",
    quick=[bfs("MC_C03", "C03_quick")],
    thorough=[bfs("MC_C03", "C03_thorough")],
    sample_quick=16000, sample_thorough=400000,
    rule="cases = every child sequence of a paragraph up to the bound over {text, ws, br, inline, link, js link, font} "
         "x placement; non-trivial = the page had a simple paragraph with >= 2 word-bearing text nodes",
    nontrivial_key="para_multi", expand=wraps_c03, small=4)

PROPS["C04"] = doc_prop(
    "C04",
    quick=[bfs("MC_C04", "C04_quick")],
    thorough=[bfs("MC_C04", "C04_thorough")],
    sample_quick=16000, sample_thorough=400000,
    rule="cases = documents placing hidden / script-like / form-like content at every position; "
         "non-trivial = the source had never-shown or skip-class words AND the run produced output",
    nontrivial_key="hidden_and_output")

PROPS["C05"] = doc_prop(
    "C05",
    quick=[bfs("MC_C05", "C05_quick")],
    thorough=[bfs("MC_C05", "C05_thorough")],
    sample_quick=12000, sample_thorough=300000,
    rule="cases = documents over all element kinds, every element decorated with random on*/id/class/style/data-* noise; "
         "non-trivial = the output has at least 3 elements",
    nontrivial_key="out_elements")

PROPS["C07"] = doc_prop(
    "C07",
    quick=[bfs("MC_C07", "C07_quick")],
    thorough=[bfs("MC_C07", "C07_thorough")],
    sample_quick=16000, sample_thorough=400000,
    rule="cases = all nestings of ul/ol/li/blockquote/pre up to the bound with kept/dropped leaves; "
         "non-trivial = a retained word has a non-empty nest chain",
    nontrivial_key="chain_kept", small=4)

PROPS["C08"] = doc_prop(
    "C08",
    quick=[bfs("MC_C08", "C08_quick")],
    thorough=[bfs("MC_C08", "C08_thorough")],
    sample_quick=16000, sample_thorough=400000,
    rule="cases = all interleavings of kept/dropped text with media up to the bound; "
         "non-trivial = the page had media and both retained and dropped text",
    nontrivial_key="media_mixed", small=4)

PROPS["C09"] = doc_prop(
    "C09",
    quick=[bfs("MC_C09", "C09_quick")],
    thorough=[bfs("MC_C09", "C09_thorough")],
    sample_quick=12000, sample_thorough=300000,
    rule="cases = documents over all element kinds; non-trivial = the run produced output words",
    nontrivial_key="with_output")
