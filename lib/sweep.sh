#!/bin/sh
# sweep.sh <tier> <seeds...> : every registered check at the given tier for several seeds (soundness sweep on the unchanged tree)
tier=$1; shift
for seed in "$@"; do
  for p in C01 C02 C03 C04 C05 C06 C07 C08 C09 C10 C11 C12 C13 C14 C15 C16 C17 C18 C19 C20; do
    VERIF_SEED=$seed ./vcheck $p $tier > sweep-$p-$tier-$seed.log 2>&1
    echo "$p $tier seed=$seed exit=$? $(grep -c '^VIOLATION' sweep-$p-$tier-$seed.log) violations; $(tail -1 sweep-$p-$tier-$seed.log)"
  done
done
