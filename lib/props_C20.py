"""C20: unlikely-content pruning with fallback (spec/Unlikely.tla, spec/trace/CallsTrace.tla)."""
from propdefs import bfs


def reps(case, ctx):
    n = 4 if ctx["tier"] == "quick" else 6
    return [dict(p=dict(case["p"], rep=i)) for i in range(n)]


PROPS = {
    "C20": dict(
        stages=[
            dict(name="convert-theorems",
                 gen=dict(runs=[bfs("MC_Convert", "ConvertMrk_q"), bfs("MC_Convert", "ConvertMrk_finding", expect_violation=True)])),
            dict(name="defects", tiers=("thorough",),
                 gen=dict(runs=[bfs("MC_C20", "C20_defect1", expect_violation=True), bfs("MC_C20", "C20_defect2", expect_violation=True)])),
            dict(name="main",
                 gen=dict(runs=dict(quick=[bfs("MC_C20", "C20_quick")], thorough=[bfs("MC_C20", "C20_thorough")])),
                 expand=reps, sample=dict(quick=None, thorough=None),
                 trace=dict(module="CallsTrace", cfg="CallsTrace"), eval_key="calls", run_to_case=lambda r: r // 1000),
        ],
        rule="cases = pages (main content of 120..700 words x marked subtrees: placement x marker kind x size, from spec/Unlikely.tla) "
             "x marker vocabulary rotation; each case is a metamorphic triple P / deleted / renamed; non-trivial = triples",
        nontrivial_key="triples",
        assumptions=[
            "markers are drawn from the class/id vocabulary and the ARIA roles of internal/converter/utils.go, excluding names that also trigger a different mechanism (comment(s), byline/author, sharing/socialArea, aside/nav tags)",
            "exempted forms (body, anchors, table descendants, names containing and|article|body|column|content|main|shadow) are not generated: the statement is silent on them",
            "marked subtrees contain no title, headings, metadata or media; pages carry no <title>",
            "phases (wc of pass 1, second pass taken, flags) come from the verif hooks",
        ],
        exhaustive_tiers=("quick", "thorough"),
    ),
}
TEXT = {
    "C20": dict(
        level="TLC checks on spec/Unlikely.tla that the two-pass machine satisfies both metamorphic relations for every page of the bound (and that the two classic defects - pass 2 keeping the flag, <= instead of < - violate them). Every page becomes three real documents (P, marked subtrees deleted, markers renamed) distilled in one group; TLC replays the hook events of each call through spec/Distiller.tla (second pass iff wc1 < 500, flags, word count) and evaluates PrunedWhenEnoughRemains / MarkersIgnoredOtherwise on the three results.",
        ref="DESIGN.md 7 C20",
        note="trusted base: TLC 1.8; harness/fam_unlikely.go assembles the three documents from the same generated pieces; the verif hooks Pass/DocFilter/Rendered; result views compared by digest of Text + rendered Node + WordCount",
        technique="TLA+ two-pass model + TLC; metamorphic triples of real runs validated by TLC against spec/trace/CallsTrace.tla"),
}
