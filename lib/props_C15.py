"""C15: title comes from the page, is never invented, and is not repeated in content.

Design model spec/Title.tla (getDocumentTitle + candidate list as a step machine on token/atom
sequences, property invariants), generator configs spec/gen/C15_*.cfg, handler
harness/fam_title.go, trace specification spec/trace/TitleTrace.tla."""
import json
import zlib

from propdefs import bfs

BLOCKS = ["h2", "p", "h1", "h3", "div"]
POSITIONS = ["mid", "mid", "lead"]


def blocks_c15(case, ctx):
    """every case gets the tag and the position of the repeating block (rotating with the seed)"""
    h = zlib.crc32(json.dumps(case["p"], sort_keys=True).encode()) + ctx["seed"]
    p = dict(case["p"], block=BLOCKS[h % len(BLOCKS)], pos=POSITIONS[(h // len(BLOCKS)) % len(POSITIONS)],
             br=case.get("br", ""))   # the model's branch label, for the driver's coverage counters only
    return [dict(p=p, br=case.get("br", ""))]


def stratum_c15(case):
    p = case["p"]
    return "%s|%s" % (case.get("br", ""), "mk" if p.get("mk", "none") != "none" else "-")


QUICK = [bfs("MC_C15", "C15_q_all"), bfs("MC_C15", "C15_q_colon"), bfs("MC_C15", "C15_q_len"),
         bfs("MC_C15", "C15_q_sep"), bfs("MC_C15", "C15_q_seplong")]
THOROUGH = [bfs("MC_C15", "C15_t_all", timeout=900, heap="16g"), bfs("MC_C15", "C15_t_colon", timeout=600),
            bfs("MC_C15", "C15_t_len", timeout=600), bfs("MC_C15", "C15_t_sep", timeout=600, heap="16g"),
            bfs("MC_C15", "C15_t_seplong", timeout=600, heap="16g")]

PROPS = {}
PROPS["C15"] = dict(
    stages=[
        dict(name="rules", gen=dict(runs=dict(quick=[bfs("MC_C15", "C15_steps"), bfs("MC_C15", "C15_live")],
                                              thorough=[bfs("MC_C15", "C15_steps"), bfs("MC_C15", "C15_live")]))),
        dict(name="main",
             gen=dict(runs=dict(quick=QUICK, thorough=THOROUGH)),
             sample=dict(quick=6000, thorough=150000),
             expand=blocks_c15,
             stratify=stratum_c15,
             trace=dict(module="TitleTrace", cfg="TitleTrace", heap="6g")),
    ],
    rule="cases = <title> token sequences (words of 2/6/40 letters, hyphenated word, word+colon, the six spaced separators) "
         "x first h1 {none, = title, 2 words, 6 words} x h2 {none, = title} x markup title {none, OpenGraph, schema.org, IE}, "
         "enumerated by TLC (spec/Title.tla) and stratified over the branches of the title heuristic; each case is run as a page "
         "with a retained article (run A) and again with a block whose text is exactly the returned title (run B); "
         "non-trivial = run B had a block whose text is the title of that run; counters: rep_control_block_retained = the same "
         "block with fresh words is retained by the distiller (so its absence is due to the title rule)",
    nontrivial_key="rep_block_is_title",
    assumptions=[
        "source-side facts (normalised <title> text, first h1 text, headings equal to the title, markup title carrier, blocks whose "
        "text is the title) are read back from the parsed tree handed to Apply by harness/fam_title.go",
        "string equality / containment (Result.Title vs <title> text, h1 text, MarkupInfo.Title) are computed on the raw strings by "
        "the harness and logged as booleans; TLC cross-checks them against the same relations on the lexically decoded atoms (DRIFT if they differ)",
        "'separator pattern' in the exactness clause is read as: one of | - / \\ > » with a space on both sides, or a colon followed by a space",
        "'a contiguous part' is read as a contiguous run of characters of the whitespace-normalised <title> text (the empty run included)",
        "'a block whose text is the title' = an h1/h2/h3/p/div whose whitespace-normalised text equals Result.Title of the same run; "
        "'emitted again' = an element of Result.Node or a line of Result.Text with exactly that text, or (when no other block of the page "
        "carries a word of the title) any word of the title in Result.Text",
        "pages are ASCII except the separator »; opt-out pages, empty markup titles and titles with apostrophes/punctuation other than : and - are not generated",
    ],
    exhaustive_tiers=(),
)

TEXT = {}
TEXT["C15"] = dict(
    level="TLC checks on the step machine transcribed from getDocumentTitle/ensureTitleInitialized (separator branch with the "
          "short-first-part rule and hierarchical-separator bookkeeping, colon branch with heading match / last colon / first colon / "
          "more-than-5-words rules, length branch with h1 fallback, the 4-words-or-fewer rule, markup title first) that MarkupWins, "
          "NoInvention and ExactWhenPlain hold for every enumerated <title> token sequence x h1 x h2 x markup kind; every case is then "
          "built as a real page, Apply is run (and run again with a block repeating the returned title), and TLC validates the four "
          "predicates C15_MarkupWins, C15_NoInvention, C15_ExactWhenPlain, C15_TitleNotRepeated on the traces of the real runs. "
          "The model's exact predicted title is fidelity only (DRIFT).",
    ref="DESIGN.md 7 C15",
    note="trusted base: TLC 1.8; spec/Title.tla predicates (transcribed from the property text); harness/fam_title.go lexical decoding of "
         "titles into atoms and raw-string equality/containment booleans (cross-checked by TLC on the atoms); sampled, not exhaustive",
    technique="TLA+ step-machine model of the title heuristic + TLC enumeration of title token sequences; real-code runs validated by TLC "
              "against spec/trace/TitleTrace.tla")
