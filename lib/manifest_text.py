"""texts of the MANIFEST entries"""
DOC_NOTE = ("trusted base: TLC 1.8, the Go html parser used to read source and result trees, harness/ref.go (reference "
            "abstraction written from the property statement) and harness/proj.go (token decoding); verdicts only from "
            "TLC evaluating spec/DocProps.tla predicates on traces of real runs, reproduced in a fresh process")

def doc(level, ref):
    return dict(level=level, ref=ref, note=DOC_NOTE,
                technique="TLA+ model + TLC: exhaustive abstract-document enumeration (spec/gen), real-code runs, TLC trace validation against spec/trace/DocTrace.tla")

TEXT = {
 "C02": doc("TLC enumerates every abstract document up to the bound (and simulates deeper ones), runs of text / inline elements / form controls / empty headings in one parent placed in list items, quotes and table cells, and every paragraph child sequence; each becomes a real page whose words are unique tokens; TLC validates every recorded run against the trace spec and evaluates NothingInvented/OnlyVisibleText/OrderKeptOnce on it. Two fidelity stages replay the real builder calls against spec/Convert.tla and the real distilled HTML against spec/Render.tla (differences are DRIFT; mechanism-level C02 predicates are judged on the recorded calls / items). Bounded-exhaustive over document shapes, not a proof.", "DESIGN.md 7 C02"),
 "C03": doc("TLC proves on spec/Convert.tla that a simple paragraph lands in one group of Text elements for every paragraph shape of the bound (the lost-siblings defect toggle must fail), and on spec/TextFilters.tla that no sequence of filter steps (merge neighbours, change a flag, drop boilerplate) splits a block or gives two texts of one initial block different flags. TLC enumerates every child sequence of a paragraph up to the bound over the inline alphabet, in seven placements (also bare in cells and list items); ParaAllOrNothing is evaluated by TLC on each real run, and the block list recorded after every one of the text filters of the real run (hook) is checked step by step against the structural model (BlocksNeverSplit, TextFlagsFollowBlocks).", "DESIGN.md 7 C03"),
 "C04": doc("TLC enumerates placements of hidden / script-like / form-like content in every container kind incl. the wholesale-clone paths (data table, linked caption, tweet); NoLeak predicates evaluated by TLC on each real run.", "DESIGN.md 7 C04"),
 "C05": doc("TLC enumerates documents over all output element kinds; the driver decorates every element with handler/id/class/style/data noise; TLC evaluates the census predicates on each real run.", "DESIGN.md 7 C05"),
 "C07": doc("TLC proves on spec/DocFilters.tla that a tag pair is content iff it encloses content for all balanced tag sequences of the bound, and on spec/Render.tla (rendering of the flagged element list: TreeClone, parent wrapper, inline-root climb, inner html for nestable roots) that for every document of the bound and EVERY assignment of content flags the distilled HTML is balanced, holds each content text node once and in order, and shows it under the chain of list/quote/pre elements it has in the source (a defect toggle must fail). TLC enumerates all nestings of ul/ol/li/blockquote/pre up to the bound with kept/dropped leaves and data tables; ChainsPreserved and TableWhole are evaluated by TLC on each real run; the recorded element lists are run through the filter models and the real distilled HTML is compared item by item with Render.tla.", "DESIGN.md 7 C07"),
 "C08": doc("TLC enumerates all interleavings of kept/dropped text with every media kind up to the bound; MediaFollowText/AtMostOneLead evaluated by TLC on each real run.", "DESIGN.md 7 C08"),
 "C09": doc("TLC enumerates documents over all element kinds; TextEqualsHtml, ImagesFromHtml, WordCount evaluated by TLC on each real run.", "DESIGN.md 7 C09"),
}

TEXT["C18"] = dict(
    level="TLC checks, for every vector of the rule-relevant feature product, that the rule-by-rule machine transcribed from the classifier (code order, code-derived row/column/cell counts) gives the verdict of the cascade as documented; every vector is then built as a real table at four placements, Apply is run, and TLC validates the real classifier's verdict (hook) and the table's fate in the output against Documented(f). Exhaustive over the stated feature values in the thorough tier.",
    ref="DESIGN.md 7 C18",
    note="trusted base: TLC 1.8; spec/TableClass.tla Documented (transcribed from the property text); harness/fam_table.go builds the table as TableClass!Build says (re-measured on the parsed tree); verdict read from the verif hook TableClass/TableInfo",
    technique="TLA+ decision-list model + TLC exhaustive feature product; real-code runs validated by TLC against spec/trace/TableTrace.tla")

NOT_APPLICABLE = {
}
