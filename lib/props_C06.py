"""C06: with a page URL, every link and media URL in the output is absolute"""
from propdefs import bfs, sim

PROPS = {}
TEXT = {}

PROPS["C06"] = dict(
    stages=[
        # sensitivity of the design invariant: with text blocks not handed the page URL TLC must
        # (and does) report OutputAbsolute violated - the counterexample is expected
        dict(name="toggle", gen=dict(runs=dict(quick=[bfs("MC_C06", "C06_toggle", expect_violation=True, workers=1)],
                                               thorough=[bfs("MC_C06", "C06_toggle", expect_violation=True, workers=1)]))),
        dict(name="main",
             gen=dict(runs=dict(quick=[bfs("MC_C06", "C06_quick", workers=1)],
                                # measured: the full product takes 90-100 s with one TLC worker and 280-410 s with 16 on this
                                # machine (more workers are slower here; cause not investigated), hence workers=1
                                thorough=[bfs("MC_C06", "C06_full", workers=1, timeout=900, heap="8g")])),
             sample=dict(quick=3000, thorough=200000),
             stratify=lambda c: c.get("p", {}).get("carrier", "") + "/" + c.get("p", {}).get("cls", ""),
             trace=dict(module="UrlTrace", cfg="UrlTrace")),
    ],
    rule="cases = page URL x carrier x reference class (srcset carriers: 1..3 candidates with x/w descriptors), each built as a "
         "page whose carrier follows a retained long paragraph and distilled with that page URL; non-trivial = the tested "
         "reference was found again in Result.Node (counters car_*/cls_* give carrier and class coverage of what was observed)",
    nontrivial_key="observed",
    assumptions=[
        "the expected value is UrlResolve!Expected evaluated by TLC on the lexically split page URL and original value "
        "(RFC 3986 5.2 strict; net/url is not the oracle); URL strings are split into components with plain string operations",
        "the empty reference (href=\"\" / src=\"\") is not judged beyond 'unchanged or resolved': the statement lists neither an "
        "empty value among the pass-through classes nor among the relative-reference forms of its quantifier",
        "'unparseable' is generated only as values that are no URI reference under any reading: an invalid %-escape (%zz) or an "
        "ASCII control character (0x01); 'already absolute' only as http/https URLs with a host and dot-free path",
        "srcset values use only syntax on which the HTML standard's parser and the code's regexp agree: candidates separated by "
        "', ', an optional single x or w descriptor, no URL starting or ending with a comma",
        "not generated (statement silent): lazy-load attributes (data-src...; every img carries a non-empty src unless the "
        "tested value itself is src), <base href>, upper-case schemes/hosts, ports, userinfo, non-ASCII, page URLs with a fragment, "
        "base64 data: URLs (short ones are removed as lazy-load placeholders)",
        "a[href=javascript:...] with a single text child is rewritten to plain text by the converter (no URL left to observe)",
    ],
    exhaustive_tiers=("thorough",),
)

TEXT["C06"] = dict(
    level="TLC checks an explicit model of RFC 3986 section 5.2 (Merge, RemoveDotSegments - cross-checked against the literal "
          "buffer algorithm of 5.2.4 -, Resolve) and the pass-through classes of the statement over page URLs x reference classes "
          "x carriers: results absolute, identity on absolute references, idempotence, no climbing above the root, base path kept "
          "for query-only/empty references; the 'text blocks are not handed the page URL' toggle yields the expected "
          "counterexample. Every case is then built as a real page, Apply is run with the page URL, and TLC validates every URL "
          "attribute of Result.Node (outside embed placeholders) and every ContentImages entry against Resolve/pass-through "
          "evaluated on the lexically split original value. Thorough tier: the full product.",
    ref="DESIGN.md 7 C06",
    note="trusted base: TLC 1.8; spec/UrlResolve.tla (Resolve transcribed from RFC 3986 5.2.2-5.2.4, classes from the property "
         "text); harness/fam_url.go splits URL strings lexically (RFC 3986 appendix B) and collects srcset candidates as the HTML "
         "standard does; source values are read from the parsed tree handed to Apply",
    technique="TLA+ model of RFC 3986 reference resolution + TLC exhaustive product; real-code runs validated by TLC against "
              "spec/trace/UrlTrace.tla")
