"""C14 - metadata precedence and opt-out (spec/Markup.tla, harness/fam_markup.go, spec/trace/MarkupTrace.tla)"""
import json
import zlib

from propdefs import bfs, sim  # noqa: F401


def orders_c14(case, ctx):
    """C14: where the three markup blocks sit in the document is a permutation index 0..5 the
    model does not depend on; quick: one per case, rotating with the case and the seed;
    thorough: all six."""
    p = case["p"]
    key = json.dumps([p["og"]["shape"], p["og"]["pat"], p["schema"]["shape"], p["schema"]["pat"], p["schema"]["img"],
                      p["ie"]["pat"], p["optout"]], sort_keys=True)
    order = (zlib.crc32(key.encode()) + ctx["seed"]) % 6
    if ctx["tier"] == "thorough":
        return [dict(p=dict(p, order=o)) for o in range(6)]
    return [dict(p=dict(p, order=order))]


def strata_c14(case):
    p = case["p"]
    return "%s/%s/%s" % (p["og"]["shape"], p["schema"]["shape"], p["optout"])


PROPS = {"C14": dict(
    stages=[
        dict(name="main",
             gen=dict(runs=dict(quick=[bfs("MC_C14", "C14_quick", timeout=300)],
                                thorough=[bfs("MC_C14", "C14_full", timeout=900)])),
             sample=dict(quick=3000, thorough=None),
             expand=orders_c14,
             stratify=strata_c14,
             trace=dict(module="MarkupTrace", cfg="MarkupTrace")),
    ],
    rule="cases = pages enumerated by TLC as the product of {8 OpenGraph shapes (none, complete website/article/profile, one "
         "required property missing) x field patterns} x {schema.org shapes (none, top-level Article, Article with nested "
         "Person/Organization, Article inside an item of another type, only unsupported items) x image forms x field patterns x "
         "{no rel=author element, one with text, only ones without text} x {author, creator property}} "
         "x {IE Reading View patterns} x opt-out state, the field patterns rotating present/empty/absent so that every field "
         "sees all 27 status triples; each built as a real page with the blocks in a rotating order; non-trivial = the real "
         "MarkupInfo took its fields from at least two different sources; counters win_<field>_<source> show which source won",
    nontrivial_key="mixed_sources",
    assumptions=[
        "every generated value embeds its source and field (og-title-17); the driver decodes the source of each MarkupInfo field "
        "by token match and the verdict is TLC's (spec/Markup.tla Expected/ExpectedArt on the abstraction the driver measured "
        "on the parsed page with its own reading of the three formats)",
        "the value of Type is the word Article whatever the source: only its emptiness is judged; an og:type other than "
        "'article' on a complete OpenGraph block may or may not count as providing a type (both outcomes accepted)",
        "'has an article sub-record' is ambiguous for an article object without any non-empty article property (og:type=article "
        "with no article:* value, a schema.org Article item without date/section/author): both readings are accepted",
        "not generated (statement silent): article:*/profile:* properties before og:type or on pages of another og:type; "
        "required OpenGraph properties with empty content; og:image:* without og:image; only one of profile first/last name; "
        "duplicate properties; custom RDFa prefix names (the standard og/article/profile names are declared via html prefix, "
        "head prefix, xmlns or not at all); https:// itemtypes; an Article item that is itself an itemprop of an unsupported "
        "item; top-level Person/Organization items; rel=author in other letter case; copyrightHolder without publisher; "
        "ImageObject without url; IE images without caption; IE title without a <title> element; IE_RM_OFF values other than "
        "true/false and other spellings of its name",
        "unsupported item types carry only property names that map to no MarkupInfo field",
        "the order of the blocks is a permutation index added to each TLC case (quick: one, rotating with the seed; thorough: all six), "
        "not part of the TLC product (the model does not depend on it)",
    ],
    exhaustive_tiers=("thorough",),
)}

TEXT = {"C14": dict(
    level="TLC checks, for every page of the enumerated product of what the three markup sources provide (OpenGraph shape incl. "
          "each single missing required property and type-dependent article/profile properties, schema.org shape incl. nested "
          "Person/Organization and the ImageObject forms, IE Reading View tags, opt-out state; present/empty/absent per field), "
          "that the accessor-list machine transcribed from internal/markup/parser.go yields what the property text demands "
          "(first eligible source providing a non-empty value, article record wholesale, opt-out empties all); every page is then "
          "built for real, Apply is run, and TLC validates Result.MarkupInfo field by field against the expectation computed from "
          "the abstraction measured on the parsed page. Exhaustive over the stated product in the thorough tier.",
    ref="DESIGN.md 7 C14",
    note="trusted base: TLC 1.8; spec/Markup.tla Expected/ExpectedArt (transcribed from the property text); harness/fam_markup.go "
         "builds the page and re-measures the provides-abstraction on the parsed tree (DRIFT if it differs from Abs(p)); origin of a "
         "value = generated token it contains",
    technique="TLA+ accessor-list model + TLC exhaustive product; real-code runs validated by TLC against spec/trace/MarkupTrace.tla")}
